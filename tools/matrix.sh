#!/bin/bash
# usage: matrix.sh <seeded id>...   runs the quick check of each seeded change's own property with the patch applied
cd /verif
for id in "$@"; do
  pid=$(/venv/bin/python -c "import json;print(json.load(open('/verif/seeded/$id/meta.json'))['breaks_property'])")
  git -C /repo apply /verif/seeded/$id/patch.diff 2>/dev/null || { echo "$id: patch does not apply"; continue; }
  out=$(VERIF_TIER=quick ./check $pid 2>&1); rc=$?
  git -C /repo checkout -- .
  clause=$(echo "$out" | grep -m1 VIOLATION | sed 's/.*clause=\([^ ]*\).*/\1/')
  echo "$id $pid rc=$rc clause=$clause :: $(echo "$out" | tail -1 | cut -c1-100)"
  /venv/bin/python - "$id" "$pid" "$rc" "$clause" <<'PY'
import json, sys
sid, pid, rc, clause = sys.argv[1:5]
p = "/verif/seeded/%s/meta.json" % sid
m = json.load(open(p))
res = "VIOLATION reported (%s), exit 1" % clause if rc == "1" else ("NOT detected, exit 0" if rc == "0" else "machinery failure, exit " + rc)
m["detected_by"] = [d for d in m.get("detected_by", []) if d.get("check") != pid] + [{"check": pid, "tier": "quick", "result": res}]
json.dump(m, open(p, "w"), indent=1)
PY
done
