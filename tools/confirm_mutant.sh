#!/bin/bash
# usage: confirm_mutant.sh <srcdir with mK.diff demo_mK.py mK.json> <mK> <seeded id>
# Confirms in a scratch worktree: applies cleanly, suite passes (925), demo exits 1 with / 0 without.
set -u
SRC=$1; M=$2; ID=$3
WT=/tmp/confirm_$ID
rm -rf $WT; git -C /repo worktree prune; git -C /repo worktree add -q --detach $WT HEAD || exit 2
cd $WT
res="{}"
git apply $SRC/$M.diff || { echo "$ID: patch does not apply"; git -C /repo worktree remove --force $WT; exit 1; }
tests=$(PYTHONPATH=$WT /venv/bin/python -m pytest -q -p no:cacheprovider -n 6 2>&1 | tail -1)
PYTHONPATH=$WT /venv/bin/python $SRC/demo_$M.py > /tmp/confirm_$ID.with.txt 2>&1; with=$?
git checkout -q -- .
PYTHONPATH=$WT /venv/bin/python $SRC/demo_$M.py > /tmp/confirm_$ID.without.txt 2>&1; without=$?
cd /; git -C /repo worktree remove --force $WT
echo "$ID: tests=[$tests] demo_with=$with demo_without=$without"
if echo "$tests" | grep -q "925 passed" && [ $with = 1 ] && [ $without = 0 ]; then
  mkdir -p /verif/seeded/$ID
  cp $SRC/$M.diff /verif/seeded/$ID/patch.diff
  cp $SRC/demo_$M.py /verif/seeded/$ID/demo.py
  /venv/bin/python - "$SRC/$M.json" "$ID" "$tests" <<'PY'
import json, sys
src, sid, tests = sys.argv[1:4]
m = json.load(open(src))
meta = {"id": sid, "breaks_property": m.get("property"), "summary": m.get("summary"), "needs_to_manifest": m.get("needs_to_manifest"),
        "files": m.get("files"), "origin": "independent sub-agent given only the property text and a scratch worktree",
        "confirmed": {"applies_to": "repo HEAD at confirmation time", "test_suite_with_patch": tests,
                      "demo_exit_with_patch": 1, "demo_exit_without_patch": 0,
                      "how": "tools/confirm_mutant.sh: scratch worktree, git apply, full pytest run, demo with and without the patch"},
        "detected_by": []}
json.dump(meta, open("/verif/seeded/%s/meta.json" % sid, "w"), indent=1)
PY
  echo "$ID: KEPT"
else
  echo "$ID: REJECTED"
fi
