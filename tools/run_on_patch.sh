#!/bin/bash
# usage: run_on_patch.sh <patch> <check id>...   applies the patch to /repo, runs the checks, reverts
P=$1; shift
git -C /repo apply "$P" || exit 2
for c in "$@"; do
  out=$(cd /verif && ./check $c 2>&1); rc=$?
  echo "$(basename $(dirname $P)) $c rc=$rc :: $(echo "$out" | grep -E "VIOLATION|MACHINERY|KNOWN" | head -2 | cut -c1-220) :: $(echo "$out" | tail -1 | cut -c1-120)"
done
git -C /repo checkout -- .
