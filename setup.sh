#!/bin/sh
# Offline setup: nothing to build; parse every specification module once so that a broken
# spec is reported here rather than by the first check.
set -e
cd "$(dirname "$0")"
mkdir -p .work evidence replays
PYTHONDONTWRITEBYTECODE=1 /venv/bin/python - <<'PY'
import sys, os, subprocess
sys.path.insert(0, os.getcwd())
from harness import core, params
d = core.workdir("setup")
params.stage(d)
bad = 0
for fn in sorted(os.listdir(d)):
    if fn.endswith(".tla"):
        p = subprocess.run(["java", "-Djava.io.tmpdir=" + d + "/tmp", "-cp", core.JAR + ":" + core.DEPS, "tla2sany.SANY", fn],
                           cwd=d, capture_output=True, text=True)
        ok = "Semantic errors" not in p.stdout and "Fatal errors" not in p.stdout and "Could not parse" not in p.stdout and "*** Errors" not in p.stdout
        print(("ok   " if ok else "FAIL ") + fn)
        bad += not ok
sys.exit(1 if bad else 0)
PY
