------------------------------- MODULE Trace_Hex -------------------------------
(* Judges observations of the real u64_to_hex / hex_to_u64 (C19).  Text travels as ASCII codes,
   values as 16 hex digits. *)
EXTENDS A5Layout, TLC, Json, IOUtils
T == ndJsonDeserialize(IOEnv.TRACE_FILE)
N == Len(T)
B == 64
K == (N + B - 1) \div B
VARIABLE l

IsLowerHex(t) == \A i \in 1..Len(t) : t[i] \in (48..57) \cup (97..102)
Clauses(e) ==
  CASE e.ev = "hex" ->
       IF Len(e.n) # 16 THEN << <<"wellformed.hex", FALSE>> >> ELSE
       << <<"C19.total", e.ok>>,
          <<"C19.lowercase", e.ok => IsLowerHex(e.txt)>>,
          <<"C19.nopadding", e.ok => Len(e.txt) >= 1 /\ (Len(e.txt) > 1 => e.txt[1] # 48)>>,
          <<"C19.canonical", e.ok => e.txt = ToHex(e.n)>>,
          <<"C19.roundtrip", e.ok => e.back = e.n>>,
          <<"C19.parse.spec", e.ok /\ IsLowerHex(e.txt) /\ Len(e.txt) <= 16 => FromHex(e.txt) = e.n>>,
          <<"C19.upper", e.upper = e.n>>,
          <<"C19.leadingzeros", \A i \in 1..Len(e.pads) : e.pads[i] = e.n>> >>
    [] OTHER -> << <<"wellformed.event", FALSE>> >>

Judge(i) == LET bad == SelectSeq(Clauses(T[i]), LAMBDA x : ~x[2]) IN
            bad = <<>> \/ PrintT(<<"BAD", i, [k \in 1..Len(bad) |-> bad[k][1]]>>)
Init == l = 0
Next == \/ l = 0 /\ \E b \in 1..B : l' = -b
        \/ l < 0 /\ \E i \in ((-l - 1) * K + 1)..(IF (-l) * K < N THEN (-l) * K ELSE N) : l' = i /\ Judge(i)
Spec == Init /\ [][Next]_l
=============================================================================
