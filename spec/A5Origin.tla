------------------------------- MODULE A5Origin -------------------------------
(* quintant <-> segment per face (a5/core/origin.py) over the parameter tables.  The discrete
   reason the two directions of the indexing can agree: SegmentToQuintant inverts
   QuintantToSegment on every face. *)
EXTENDS Integers, Sequences, A5Params
ASSUME /\ Len(WindStep) = NF /\ \A i \in 1..NF : WindStep[i] \in {-1, 1}
       /\ Len(Orientation) = NF /\ \A i \in 1..NF : Len(Orientation[i]) = NS
QuintantToSegment(q, f) ==
   LET fq == FirstQuintant[f + 1] step == WindStep[f + 1]
       delta == (q - fq + NS) % NS
       rel == (step * delta + NS) % NS
   IN <<(fq + rel) % NS, Orientation[f + 1][rel + 1]>>
SegmentToQuintant(s, f) ==
   LET fq == FirstQuintant[f + 1] step == WindStep[f + 1]
       rel == (s - fq + NS) % NS
   IN <<(fq + step * rel + NS) % NS, Orientation[f + 1][rel + 1]>>
InverseLaw == \A f \in 0..NF-1, q \in 0..NS-1 :
                 LET so == QuintantToSegment(q, f) IN SegmentToQuintant(so[1], f) = <<q, so[2]>>
OntoLaw == \A f \in 0..NF-1 : { QuintantToSegment(q, f)[1] : q \in 0..NS-1 } = 0..NS-1
=============================================================================
