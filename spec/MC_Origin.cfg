SPECIFICATION Spec
INVARIANT Inverse
INVARIANT Laws
CHECK_DEADLOCK FALSE
