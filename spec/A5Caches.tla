------------------------------- MODULE A5Caches -------------------------------
(* The lazily filled caches of the projection layer as slot arrays, and the history law that
   makes "every call is a pure function of its arguments" (C17) hold:

     face_triangles[FT(t, refl, sq)]            DodecahedronProjection.get_face_triangle
     spherical_triangles[ST(f, t, refl)]        DodecahedronProjection.get_spherical_triangle
     memo                                       what each distinct call returned first

   A lookup of key k reads slot S(k); on a miss the slot is filled with the value of k.  The cache
   is sound iff every filled slot holds the value of every key that maps to it; then a hit returns
   what a cold computation would, and results do not depend on the history (Pure).  Forward and
   Inverse projections of a point in triangle t of face f (reflected or not) perform the same three
   lookups. *)
EXTENDS Integers, Sequences, FiniteSets, TLC
CONSTANTS NFaces, NTri,           \* 12, 10
          RefOff, SqOff, FaceMul, STRefOff,    \* slot arithmetic of today's code: 10, 20, 10, 120
          MaxCalls
None == <<"none">>
FT(t, refl, sq) == t + (IF refl THEN (IF sq THEN SqOff ELSE RefOff) ELSE 0)
ST(f, t, refl) == FaceMul * f + t + (IF refl THEN STRefOff ELSE 0)
\* the value a key stands for (squashing only matters for reflected triangles)
FTVal(t, refl, sq) == <<"ft", t, refl, refl /\ sq>>
STVal(f, t, refl) == <<"st", f, t, refl>>

VARIABLES ft, st, calls, last
vars == <<ft, st, calls, last>>
Keys == (0..NFaces-1) \X (0..NTri-1) \X BOOLEAN
Init == ft = [i \in {} |-> None] /\ st = [i \in {} |-> None] /\ calls = 0 /\ last = <<>>

Get(tab, slot) == IF slot \in DOMAIN tab THEN tab[slot] ELSE None
Put(tab, slot, val) == [i \in DOMAIN tab \cup {slot} |-> IF i = slot THEN val ELSE tab[i]]
\* lookup with fill: returns <<table', value obtained>>
Look(tab, slot, val) == IF Get(tab, slot) # None THEN <<tab, Get(tab, slot)>> ELSE <<Put(tab, slot, val), val>>

\* one projection call (forward or inverse, the cache traffic is the same)
Project(f, t, refl) ==
   LET a == Look(ft, FT(t, refl, FALSE), FTVal(t, refl, FALSE))                 \* get_face_triangle(t, refl, False)
       hit == Get(st, ST(f, t, refl)) # None
       b == IF hit THEN <<a[1], None>> ELSE Look(a[1], FT(t, refl, TRUE), FTVal(t, refl, TRUE))   \* inside _get_spherical_triangle
       c == Look(st, ST(f, t, refl), STVal(f, t, refl))
   IN /\ ft' = b[1] /\ st' = c[1]
      /\ last' = <<a[2], b[2], c[2], FTVal(t, refl, FALSE), FTVal(t, refl, TRUE), STVal(f, t, refl), hit>>
      /\ calls' = calls + 1
Next == calls < MaxCalls /\ \E k \in Keys : Project(k[1], k[2], k[3])
Spec == Init /\ [][Next]_vars

\* every value a call obtained is the value of the key it asked for
CallSound == last = <<>> \/ (/\ last[1] = last[4] /\ (last[7] \/ last[2] = last[5]) /\ last[3] = last[6])
\* reachable-state soundness of the tables
CacheSound == /\ \A i \in DOMAIN ft : \A t \in 0..NTri-1, r \in BOOLEAN, s \in BOOLEAN : FT(t, r, s) = i => ft[i] = FTVal(t, r, s)
              /\ \A i \in DOMAIN st : \A k \in Keys : ST(k[1], k[2], k[3]) = i => st[i] = STVal(k[1], k[2], k[3])
=============================================================================
