------------------------------- MODULE Trace_Geo -------------------------------
(* Judges observations of the real cell_to_lonlat / lonlat_to_cell / cell_to_boundary (C02, C12)
   with the integer geometry of A5Geo, the ring shape laws of A5Boundary, the inverse law of
   A5Origin and the search laws of A5Locate.  Coordinates arrive as micro-degrees (rounded away
   from zero, so an out-of-range value stays out of range), shapes as local integer grids, raw
   floats as hex strings (compared for equality only). *)
EXTENDS A5Geo, A5Layout, TLC, Json, IOUtils
O == INSTANCE A5Origin
T == ndJsonDeserialize(IOEnv.TRACE_FILE)
N == Len(T)
B == 64
K == (N + B - 1) \div B
VARIABLE l

NVof(r) == IF r = 1 THEN 3 ELSE 5
EstDistinct(est) == \A i, j \in 1..Len(est) : i # j => est[i][1] # est[j][1]
EstOnlyLastHits(est) == \A i \in 1..Len(est) : est[i][2] => i = Len(est)

Clauses(e) ==
  CASE e.ev = "centre" ->
       IF ~e.ok THEN << <<"C02.total", FALSE>> >> ELSE
       LET pole == HoldsPole(e.mu) IN
       << <<"C02.range.lon", e.lon >= -180 * U /\ e.lon <= 180 * U>>,
          <<"C02.range.lat", e.lat >= -90 * U /\ e.lat <= 90 * U>>,
          <<"C02.roundtrip", e.back = e.cell>>,
          <<"C02.resolution", e.backres = e.r>>,
          <<"C02.inside", pole \/ OriginInside(e.g)>>,
          \* discrete part of the projection round trip: the (face, triangle, reflected) the inverse projection used for
          \* the centre is among those the forward projection used when the centre was located again
          <<"mech.projection.sametriangle", \A i \in 1..Len(e.invkeys) : \E j \in 1..Len(e.fwdkeys) : e.fwdkeys[j] = e.invkeys[i]>>,
          <<"locate.distinct", EstDistinct(e.est)>>,
          <<"locate.onlylasthits", EstOnlyLastHits(e.est)>>,
          <<"locate.result", e.r < 2 \/ e.est = <<>> \/
               (IF e.est[Len(e.est)][2] THEN e.back = e.est[Len(e.est)][1]
                ELSE e.closest # <<>> /\ e.back = e.closest /\ \E i \in 1..Len(e.est) : e.est[i][1] = e.closest)>> >>
    [] e.ev = "origin" ->
       << <<"origin.inverse", e.backq = e.q /\ e.backo = e.o>>,
          <<"drift.origin", O!QuintantToSegment(e.q, e.f) = <<e.s, e.o>>>> >>
    [] e.ev = "ring" ->
       IF ~e.ok THEN << <<"C12.total", FALSE>> >> ELSE
       LET nv == NVof(e.r)
           isClosed == e.closed # 0
           m == e.n - (IF isClosed THEN 1 ELSE 0)
           pole == HoldsPole(e.mu)
           s == IF m > 0 /\ m % nv = 0 THEN m \div nv ELSE 0 IN
       << <<"C12.length", IF e.segs >= 1 THEN m = nv * e.segs ELSE (m > 0 /\ m % nv = 0)>>,
          <<"C12.closure", e.firstlast = isClosed>>,
          <<"C12.lat", LatOK(e.mu)>>,
          <<"C12.jump", pole \/ NoJump(e.mu)>>,
          <<"C12.span", pole \/ SpanOK(e.mu)>>,
          <<"C12.ccw", pole \/ CCW(e.g)>>,
          <<"C12.simple", pole \/ Len(e.g) > 36 \/ Simple(e.g)>>,
          <<"C12.norepeat", Len(e.hx) # m \/ Cardinality({ e.hx[i] : i \in 1..m }) = m>>,
          <<"C12.corners", s = 0 \/ Len(e.hx) # m \/
               \E rho \in 0..m-1 : \A k \in 0..nv-1 : e.hx[((rho + k * s) % m) + 1] = e.base[k + 1]>>,
          <<"C12.corners.once", s = 0 \/ Len(e.hx) # m \/
               \A k \in 1..nv : Cardinality({ i \in 1..m : e.hx[i] = e.base[k] }) = 1>> >>
    [] OTHER -> << <<"wellformed.event", FALSE>> >>

Judge(i) == LET bad == SelectSeq(Clauses(T[i]), LAMBDA x : ~x[2]) IN
            bad = <<>> \/ PrintT(<<"BAD", i, [k \in 1..Len(bad) |-> bad[k][1]]>>)
Init == l = 0
Next == \/ l = 0 /\ \E b \in 1..B : l' = -b
        \/ l < 0 /\ \E i \in ((-l - 1) * K + 1)..(IF (-l) * K < N THEN (-l) * K ELSE N) : l' = i /\ Judge(i)
Spec == Init /\ [][Next]_l
=============================================================================
