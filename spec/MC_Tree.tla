------------------------------- MODULE MC_Tree -------------------------------
(* A client session on the hierarchy API, one request per behaviour:

     Walk/Deep   pick a cell c (every cell to Depth; digit-pattern continuations to MaxRes-1)
     Build       put c or relatives of c on the working list ws (for uncompact)
     Ask         one request: children(b) / parent(a) / their defaulted and out-of-order
                 variants / uncompact(t) / compose(m, a)

   TLC checks the tree laws of the design on every request (invariants below) and the
   state dump (c, ws, op) is replayed on the real cell_to_children / cell_to_parent /
   uncompact (binding B1); the real answers are judged by Trace_Tree. *)
EXTENDS A5Layout, TLC
CONSTANTS Depth, DeepFrom, Span, DeepFaces, DeepRes0, ListFaces, ListDepth, ExpCap
VARIABLES c, ws, op, kind
vars == <<c, ws, op, kind>>

None == [name |-> "none", a |-> 0, b |-> 0]
MaxAsk == MaxRes - 1          \* the property quantifies over resolutions up to 29
Omitted == -99

Init == c = World /\ ws = <<>> /\ op = None /\ kind = "walk"

Descend == /\ kind = "walk" /\ c.r < Depth
           /\ \E k \in Children1(c) : c' = k
           /\ UNCHANGED <<ws, op, kind>>

PatDigit(p, i) == CASE p = "z" -> 0 [] p = "t" -> 3
                    [] p = "zt" -> (IF i = 1 THEN 0 ELSE 3)
                    [] p = "oz" -> (IF i = 1 THEN 1 ELSE 0)
                    [] p = "ot" -> (IF i % 2 = 1 THEN 1 ELSE 2)
Patterns == {"z", "t", "zt", "oz", "ot"}
DeepRes == DeepRes0 \cap (DeepFrom+1..MaxAsk)
Deep == /\ kind = "walk" /\ c.r = DeepFrom /\ c.f \in DeepFaces
        /\ \E p \in Patterns, r \in DeepRes :
              c' = [r |-> r, f |-> c.f, s |-> c.s, d |-> c.d \o [i \in 1..(r - c.r) |-> PatDigit(p, i)]]
        /\ kind' = "deep" /\ UNCHANGED <<ws, op>>

Relatives(x) == {x, World, Face(NF - 1)} \cup (IF x.r >= 0 THEN {Parent1(x)} ELSE {})
                \cup (IF x.r < MaxAsk THEN { CHOOSE k \in Children1(x) : TRUE } ELSE {})
ListSeed(x) == x.r >= 0 /\ x.r <= ListDepth /\ x.f \in ListFaces /\ x.s \in {0, NS - 1} /\ \A i \in 1..Len(x.d) : x.d[i] \in {0, 3}
Build == /\ kind = "walk" /\ op = None /\ ws = <<>> /\ ListSeed(c)
         /\ \E x \in Relatives(c) : ws' = Append(ws, x)
         /\ kind' = "list" /\ UNCHANGED <<c, op>>
BuildMore == /\ kind = "list" /\ op = None /\ Len(ws) < 3
             /\ \E x \in Relatives(c) : ws' = Append(ws, x)
             /\ UNCHANGED <<c, op, kind>>

AskCell == /\ kind \in {"walk", "deep"} /\ op = None
           /\ \/ \E b \in (c.r - 2)..(c.r + Span) :
                     b >= -2 /\ b <= MaxAsk /\ op' = [name |-> "children", a |-> 0, b |-> b]
              \/ c.r < MaxAsk /\ op' = [name |-> "children", a |-> 0, b |-> Omitted]
              \/ op' = [name |-> "children", a |-> 0, b |-> MaxRes + 1]
              \/ \E a \in -2..(c.r + 2) : op' = [name |-> "parent", a |-> a, b |-> 0]
              \/ c.r >= 0 /\ op' = [name |-> "parent", a |-> Omitted, b |-> 0]
              \/ \E m \in -1..c.r : \E a \in -1..m : m - a <= 3 /\ c.r - m <= 3
                     /\ op' = [name |-> "compose", a |-> a, b |-> m]
           /\ kind' = "ask" /\ UNCHANGED <<c, ws>>
MaxR(s) == LET R == { s[i].r : i \in 1..Len(s) } IN CHOOSE x \in R : \A y \in R : y <= x
RECURSIVE Expansion(_, _)
Expansion(s, t) == IF s = <<>> THEN 0 ELSE NumChildrenSmall(s[1].r, t) + Expansion(Tail(s), t)
AskList == /\ kind = "list" /\ op = None /\ ws # <<>>
           /\ \E t \in (MaxR(ws) - 1)..(MaxR(ws) + 2) : t >= -1 /\ t <= MaxAsk /\ Expansion(ws, t) <= ExpCap
                                            /\ op' = [name |-> "uncompact", a |-> 0, b |-> t]
           /\ kind' = "ask" /\ UNCHANGED <<c, ws>>

Next == Descend \/ Deep \/ Build \/ BuildMore \/ AskCell \/ AskList
Spec == Init /\ [][Next]_vars

\* ---------------- tree laws of the design, evaluated on every request ----------------
B == IF op.b = Omitted THEN c.r + 1 ELSE op.b
A == IF op.a = Omitted THEN c.r - 1 ELSE op.a
ChildrenLaw == op.name = "children" /\ B >= c.r /\ B <= MaxAsk =>
   LET D == Desc(c, B) IN
   /\ Cardinality(D) = NumChildrenSmall(c.r, B)
   /\ \A k \in D : k.r = B /\ IsCell(k) /\ Anc(k, c.r) = c
ParentLaw == op.name = "parent" /\ A >= -1 /\ A <= c.r =>
   LET p == Anc(c, A) IN
   /\ IsCell(p) /\ p.r = A /\ IsAncOrSelf(p, c)
   /\ \A m \in A..c.r : Anc(Anc(c, m), A) = p
   /\ (c.r - A <= 3 => c \in Desc(p, c.r))
ComposeLaw == op.name = "compose" =>
   /\ Anc(Anc(c, op.b), op.a) = Anc(c, op.a)
   /\ (c.r - op.a <= 3 => Desc(Anc(c, op.a), c.r) = UNION { Desc(k, c.r) : k \in Desc(Anc(c, op.a), op.b) })
UncompactLaw == op.name = "uncompact" /\ (\A i \in 1..Len(ws) : ws[i].r <= op.b) =>
   \A i \in 1..Len(ws) : NumChildrenSmall(ws[i].r, op.b) <= 320 =>
        Cardinality(Desc(ws[i], op.b)) = NumChildrenSmall(ws[i].r, op.b)
TypeOK == IsCell(c) /\ \A i \in 1..Len(ws) : IsCell(ws[i])
=============================================================================
