------------------------------- MODULE Trace_Compact -------------------------------
(* Judges observations of the real compact() (C08, C09) with the reference compaction of
   A5Cells: Canon / Norm / CanonCover on the abstract tree.  An event carries the input list as
   passed (any order, duplicates), the returned list, the result of compacting the result
   again, and the lists recorded by the guarded hook after the initial sort and after every
   pass.  Events are independent; verdicts are total. *)
EXTENDS A5Layout, TLC, Json, IOUtils, FiniteSetsExt
T == ndJsonDeserialize(IOEnv.TRACE_FILE)
N == Len(T)
B == 64
K == (N + B - 1) \div B
VARIABLE l

ToSet(s) == { s[i] : i \in 1..Len(s) }
AllValid(ids) == \A i \in 1..Len(ids) : ValidNibs(ids[i])
CellSet(ids) == { DecodeNibs(ids[i]) : i \in 1..Len(ids) }

MaxRes0(X) == IF X = {} THEN -1 ELSE LET R == { c.r : c \in X } IN CHOOSE x \in R : \A y \in R : y <= x
RECURSIVE CanonLvl(_, _)
\* level-by-level reference compaction (equal to A5Cells!Canon, linear in the number of levels)
CanonLvl(X, r) == IF r < 0 THEN X ELSE
   LET P == { Parent1(c) : c \in { x \in X : x.r = r } }
       full == { p \in P : Children1(p) \subseteq X }
   IN CanonLvl((X \ UNION { Children1(p) : p \in full }) \cup full, r - 1)
CanonF(X) == CanonLvl(X, MaxRes0(X))
\* drop members that have a strict ancestor in X (ancestors looked up, not compared pairwise)
NormF(X) == { c \in X : \A a \in -1..(c.r - 1) : Anc(c, a) \notin X }
CoverF(X) == CanonF(NormF(X))
AntichainF(X) == NormF(X) = X

\* one pass may only replace complete sibling groups by their parents
MergeStep(P, Q) == /\ CoverF(P) = CoverF(Q)
                   /\ \A c \in Q : c \in P \/ (c.r < MaxRes /\ Children1(c) \subseteq P)
                   /\ \A c \in P : c \in Q \/ (c.r >= 0 /\ Parent1(c) \in Q)

Clauses(e) ==
  CASE e.ev = "compact" ->
       IF ~AllValid(e.input) THEN << <<"wellformed.compact", FALSE>> >> ELSE
       IF ~e.ok THEN << <<"C08.total", FALSE>> >> ELSE
       IF ~AllValid(e.ret) \/ ~AllValid(e.again) THEN << <<"C08.valid", FALSE>> >> ELSE
       LET X == CellSet(e.input) Y == CellSet(e.ret) anti == AntichainF(X) IN
       << <<"C08.cover", CoverF(Y) = CoverF(X)>>,
          <<"C09.canon", anti => Y = CanonF(X)>>,
          <<"C09.nodup", anti => Len(e.ret) = Cardinality(ToSet(e.ret))>>,
          <<"C09.nogroup", anti => NoCompleteGroup(Y)>>,
          <<"C09.idempotent", anti => ToSet(e.again) = ToSet(e.ret) /\ Len(e.again) = Len(e.ret)>>,
          <<"C09.antichain.kept", anti => AntichainF(Y)>>,
          <<"C08.passes", e.passes = <<>> \/ \A k \in 1..Len(e.passes)-1 : AllValid(e.passes[k+1]) /\ MergeStep(CellSet(e.passes[k]), CellSet(e.passes[k+1]))>>,
          <<"C08.passes.ends", e.passes = <<>> \/ (CellSet(e.passes[1]) = X /\ e.passes[Len(e.passes)] = e.ret)>>,
          <<"drift.model", e.model = <<>> \/ e.model = e.passes>> >>
    [] OTHER -> << <<"wellformed.event", FALSE>> >>

Judge(i) == LET bad == SelectSeq(Clauses(T[i]), LAMBDA x : ~x[2]) IN
            bad = <<>> \/ PrintT(<<"BAD", i, [k \in 1..Len(bad) |-> bad[k][1]]>>)
Init == l = 0
Next == \/ l = 0 /\ \E b \in 1..B : l' = -b
        \/ l < 0 /\ \E i \in ((-l - 1) * K + 1)..(IF (-l) * K < N THEN (-l) * K ELSE N) : l' = i /\ Judge(i)
Spec == Init /\ [][Next]_l
=============================================================================
