------------------------------- MODULE A5Layout -------------------------------
(* The 64-bit id layout, stated structurally on bit strings (index 1 = most significant bit):

      | top field (TopBits) | 2 bits per Hilbert digit | marker 1 | zeros |

   resolution 0:  top = face,               marker directly after the top field
   resolution 1:  top = NS*face + segment#, one 0 then the marker
   resolution r>=2: top as for 1, then r-1 digits, then the marker
   world: all zeros.   segment# = (segment - FirstQuintant[face]) mod NS.

   Ids travel as 16 hex digits (integers 0..15): TLC's integers are 32 bit. *)
EXTENDS A5Cells

W == 64
TopBits == W - StartBit

ASSUME /\ NF \in Nat /\ NS \in Nat /\ NF * NS <= 2^TopBits
       /\ Len(FirstQuintant) = NF /\ \A i \in 1..NF : FirstQuintant[i] \in 0..NS-1
       /\ FirstHilbertRes = 2

NibBits(n) == <<(n \div 8) % 2, (n \div 4) % 2, (n \div 2) % 2, n % 2>>
BitsOfNibs(ns) == [i \in 1..4 * Len(ns) |-> NibBits(ns[(i - 1) \div 4 + 1])[((i - 1) % 4) + 1]]
NibsOfBits(b) == [k \in 1..Len(b) \div 4 |-> 8 * b[4*k-3] + 4 * b[4*k-2] + 2 * b[4*k-1] + b[4*k]]
BitsOfNat(n, w) == [i \in 1..w |-> (n \div 2^(w - i)) % 2]
RECURSIVE NatOfBits(_)
NatOfBits(b) == IF b = <<>> THEN 0 ELSE 2 * NatOfBits(Front(b)) + b[Len(b)]
Zeros(n) == [i \in 1..n |-> 0]

SegNo(c) == (c.s - FirstQuintant[c.f + 1] + NS) % NS
TopField(c) == IF c.r = 0 THEN c.f ELSE NS * c.f + SegNo(c)
DigitBits(d) == [i \in 1..2 * Len(d) |-> IF i % 2 = 1 THEN d[(i + 1) \div 2] \div 2 ELSE d[i \div 2] % 2]
Body(c) == CASE c.r = 0 -> <<1>> [] c.r = 1 -> <<0, 1>> [] OTHER -> DigitBits(c.d) \o <<1>>

\* a position has an id iff top field, digits and marker fit the word
EncodeOK(c) == c.r = -1 \/ TopBits + Len(Body(c)) <= W
Encode(c) == IF c.r = -1 THEN Zeros(W)
             ELSE LET h == BitsOfNat(TopField(c), TopBits) \o Body(c) IN h \o Zeros(W - Len(h))
EncodeNibs(c) == NibsOfBits(Encode(c))

\* position (1 = MSB) of the least significant 1, 0 if none
LowestSet(b) == IF \A i \in 1..Len(b) : b[i] = 0 THEN 0
                ELSE CHOOSE i \in 1..Len(b) : b[i] = 1 /\ \A j \in i+1..Len(b) : b[j] = 0

\* resolution read off the marker position p (1-based from the MSB); -2 = not a marker position
ResOfPos(p) == IF p = 0 THEN -1
               ELSE IF p = TopBits + 1 THEN 0
               ELSE IF p = TopBits + 2 THEN 1
               ELSE IF p > TopBits + 2 /\ (p - TopBits - 1) % 2 = 0 THEN (p - TopBits - 1) \div 2 + 1
               ELSE -2
ResOf(b) == ResOfPos(LowestSet(b))

Valid(b) == LET r == ResOf(b) top == NatOfBits(SubSeq(b, 1, TopBits)) IN
            /\ Len(b) = W /\ r # -2 /\ r <= MaxRes
            /\ (r = 0 => top < NF) /\ (r >= 1 => top < NF * NS)

Digits(b, r) == [k \in 1..(r - 1) |-> 2 * b[TopBits + 2*k - 1] + b[TopBits + 2*k]]
Decode(b) == LET r == ResOf(b) top == NatOfBits(SubSeq(b, 1, TopBits)) IN
             IF r = -1 THEN World
             ELSE IF r = 0 THEN Face(top)
             ELSE LET f == top \div NS
                      s == ((top % NS) + FirstQuintant[f + 1]) % NS
                  IN IF r = 1 THEN Seg(f, s) ELSE [r |-> r, f |-> f, s |-> s, d |-> Digits(b, r)]
DecodeNibs(ns) == Decode(BitsOfNibs(ns))
ValidNibs(ns) == Len(ns) = 16 /\ (\A i \in 1..16 : ns[i] \in 0..15) /\ Valid(BitsOfNibs(ns))

\* numeric order of ids = lexicographic order of bit strings / nibble strings
RECURSIVE LexLess(_, _)
LexLess(a, b) == IF a = <<>> THEN FALSE
                 ELSE IF a[1] # b[1] THEN a[1] < b[1] ELSE LexLess(Tail(a), Tail(b))
IdLess(a, b) == LexLess(a, b)

\* id arithmetic needed by the contiguity law: successor of a nibble string by 2^(4*k) etc. is
\* avoided; contiguity is stated through the digit structure instead (see Contiguous in A5Session).

-----------------------------------------------------------------------------
(* Hex text form (C19): characters as ASCII codes. *)
HexChar(n) == IF n < 10 THEN 48 + n ELSE 87 + n            \* 0-9, a-f
RECURSIVE StripZeros(_)
StripZeros(ns) == IF Len(ns) > 1 /\ ns[1] = 0 THEN StripZeros(Tail(ns)) ELSE ns
ToHex(ns) == LET t == StripZeros(ns) IN [i \in 1..Len(t) |-> HexChar(t[i])]
HexVal(ch) == IF ch \in 48..57 THEN ch - 48 ELSE IF ch \in 97..102 THEN ch - 87
              ELSE IF ch \in 65..70 THEN ch - 55 ELSE -1
FromHex(txt) == LET v == [i \in 1..Len(txt) |-> HexVal(txt[i])] IN
                Zeros(16 - Len(StripZeros(v))) \o StripZeros(v)    \* needs <= 16 significant digits
=============================================================================
