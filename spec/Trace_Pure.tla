------------------------------- MODULE Trace_Pure -------------------------------
(* Validates ONE recorded history of API calls against the history law of A5Caches (C17).
   The trace is consumed line by line (this specification has state):

     tab   what the guarded hooks reported about the caches: <<cache name, slot>> -> requested key
           of the lookup that filled it
     memo  canonical call text -> digest of the bits it returned the first time

   cache event : on a hit the slot must have been filled by a lookup of the SAME key (CacheSound);
                 the slot chosen is compared with the slot arithmetic of A5Caches (drift only)
   call event  : the digest must equal the digest of the same call earlier in the history (Pure.repeat),
                 the digest obtained by a fresh process forked from a pristine template (Pure.fresh),
                 and the arguments must be unchanged (C17.argsame).
   Verdicts are total: failures are printed and the line is consumed. *)
EXTENDS Integers, Sequences, FiniteSets, TLC, Json, IOUtils
T == ndJsonDeserialize(IOEnv.TRACE_FILE)
N == Len(T)
VARIABLES l, tab, memo
vars == <<l, tab, memo>>

Report(i, bad) == IF bad = <<>> THEN TRUE ELSE PrintT(<<"BAD", i, bad>>)     \* IF, not \/ : TLC would explore both disjuncts of an action
Fails(cl) == LET f == SelectSeq(cl, LAMBDA x : ~x[2]) IN IF f = <<>> THEN <<>> ELSE [k \in 1..Len(f) |-> f[k][1]]

Init == l = 1 /\ tab = [x \in {} |-> ""] /\ memo = [x \in {} |-> ""]

CacheEvent(e) ==
   LET s == <<e.cache, e.slot>>
       known == s \in DOMAIN tab IN
   /\ Report(l, Fails(<< <<"C17.cachesound", e.hit => (known /\ tab[s] = e.key)>>,
                         <<"drift.cachehit", ~e.strict \/ e.hit = known>>,
                         <<"drift.slot", e.modelslot = "" \/ e.modelslot = e.slot>> >>))
   /\ tab' = IF known THEN tab ELSE [x \in DOMAIN tab \cup {s} |-> IF x = s THEN e.key ELSE tab[x]]
   /\ UNCHANGED memo

CallEvent(e) ==
   LET known == e.call \in DOMAIN memo IN
   /\ Report(l, Fails(<< <<"C17.pure.repeat", known => memo[e.call] = e.bits>>,
                         <<"C17.pure.fresh", e.fresh = "" \/ e.fresh = e.bits>>,
                         <<"C17.argsame", e.argsame>>,
                         <<"C17.noalias", e.noalias>> >>))
   /\ memo' = IF known THEN memo ELSE [x \in DOMAIN memo \cup {e.call} |-> IF x = e.call THEN e.bits ELSE memo[x]]
   /\ UNCHANGED tab

Next == /\ l <= N /\ l' = l + 1
        /\ LET e == T[l] IN
           IF e.ev = "cache" THEN CacheEvent(e)
           ELSE IF e.ev = "call" THEN CallEvent(e)
           ELSE IF e.ev = "reset" THEN tab' = [x \in {} |-> ""] /\ memo' = [x \in {} |-> ""]     \* a new process / fresh cache instance
           ELSE Report(l, <<"wellformed.event">>) /\ UNCHANGED <<tab, memo>>
Spec == Init /\ [][Next]_vars
=============================================================================
