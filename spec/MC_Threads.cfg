SPECIFICATION Spec
CONSTRAINT Bound
CHECK_DEADLOCK FALSE
