SPECIFICATION Spec
CONSTANTS MaxLen = 14
          MaxR = 3
          MaxSteps = 4
INVARIANT TypeOK
INVARIANT CompactLaw
INVARIANT UncompactLaw
INVARIANT CoverLemma
INVARIANT CanonIdempotent
PROPERTY CompactKeepsCover
PROPERTY SameCoverOps
PROPERTY CoarsenGrows
PROPERTY DropShrinks
CHECK_DEADLOCK FALSE
