SPECIFICATION Spec
CONSTANTS NFaces = 12
          NTri = 10
          RefOff = 10
          SqOff = 20
          FaceMul = 10
          STRefOff = 120
          MaxCalls = 2
INVARIANT CallSound
INVARIANT CacheSound
CHECK_DEADLOCK FALSE
