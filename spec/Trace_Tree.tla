------------------------------- MODULE Trace_Tree -------------------------------
(* Judges observations of the real hierarchy API - cell_to_children, cell_to_parent, uncompact,
   get_num_cells, get_num_children, cell_area - with the tree of A5Cells (C06, C10, C20).
   Ids are 16 hex digits; they are read through the layout of A5Layout (whose agreement with the
   real deserialize is C05's business and is re-confirmed by the harness before a verdict).
   Events are independent; each is judged in its own state; verdicts are total. *)
EXTENDS A5Layout, TLC, Json, IOUtils, FiniteSetsExt
T == ndJsonDeserialize(IOEnv.TRACE_FILE)
N == Len(T)
B == 64
K == (N + B - 1) \div B
VARIABLE l
Omitted == -99
MaxAsk == MaxRes - 1

ToSet(s) == { s[i] : i \in 1..Len(s) }
AllValid(ids) == \A i \in 1..Len(ids) : ValidNibs(ids[i])
Cells(ids) == [i \in 1..Len(ids) |-> DecodeNibs(ids[i])]

\* ordering key of a level-b cell: numeric order of same-level ids = lexicographic order of keys
Key(k) == <<TopField(k)>> \o k.d
KeyMin(S) == CHOOSE x \in S : \A y \in S : x = y \/ LexLess(x, y)
KeyMax(S) == CHOOSE x \in S : \A y \in S : x = y \/ LexLess(y, x)
RECURSIVE CommonPrefix(_, _)
CommonPrefix(a, b) == IF a = <<>> \/ a[1] # b[1] THEN 0 ELSE 1 + CommonPrefix(Tail(a), Tail(b))
RECURSIVE Val4(_)
Val4(s) == IF s = <<>> THEN 0 ELSE 4 * Val4(Front(s)) + s[Len(s)]
\* number of level-b keys from lo to hi inclusive, when that number is small
Span(lo, hi) == LET p == CommonPrefix(lo, hi)
                    a == SubSeq(lo, p + 1, Len(lo)) b == SubSeq(hi, p + 1, Len(hi)) IN
                IF Len(a) = 0 THEN 1
                ELSE IF Len(a) > 8 THEN 1000000
                ELSE IF p = 0 THEN (b[1] - a[1]) * Pow4(Len(a) - 1) + Val4(Tail(b)) - Val4(Tail(a)) + 1
                ELSE Val4(b) - Val4(a) + 1
Contiguous(cells) == LET S == { Key(k) : k \in cells } IN
                     S = {} \/ Span(KeyMin(S), KeyMax(S)) = Cardinality(S)

RECURSIVE SumSeq(_)
SumSeq(s) == IF s = <<>> THEN 0 ELSE s[1] + SumSeq(Tail(s))
RECURSIVE Blocks(_, _, _)
\* cut seq into consecutive blocks of the given sizes
Blocks(seq, sizes, from) == IF sizes = <<>> THEN <<>>
                            ELSE <<SubSeq(seq, from, from + sizes[1] - 1)>> \o Blocks(seq, Tail(sizes), from + sizes[1])

Clauses(e) ==
  CASE e.ev = "children" ->
       IF ~ValidNibs(e.cell) THEN << <<"wellformed.children", FALSE>> >> ELSE
       LET c == DecodeNibs(e.cell)
           b == IF e.b = Omitted THEN c.r + 1 ELSE e.b IN
       IF b < c.r THEN << <<"C06.children.raises", ~e.ok>> >>
       ELSE IF b > MaxRes THEN << <<"C06.children.raises.max", ~e.ok>> >>
       ELSE IF b > MaxAsk THEN <<>>
       ELSE IF ~e.ok THEN << <<"C06.children.total", FALSE>> >>
       ELSE IF ~AllValid(e.ret) THEN << <<"C06.children.valid", FALSE>> >>
       ELSE LET got == Cells(e.ret) IN
            << <<"C06.children.norep", Cardinality(ToSet(e.ret)) = Len(e.ret)>>,
               <<"C06.children.count", Len(e.ret) = NumChildrenSmall(c.r, b)>>,
               <<"C06.children.level", \A i \in 1..Len(got) : got[i].r = b>>,
               <<"C06.children.exact", ToSet(got) = Desc(c, b)>>,
               <<"C06.children.parentof", \A i \in 1..Len(e.back) : e.back[i] = e.cell>>,
               <<"C06.children.contiguous", c.r >= 1 => Contiguous(ToSet(got))>>,
               <<"C17.argsame", e.argsame>> >>
    [] e.ev = "parent" ->
       IF ~ValidNibs(e.cell) THEN << <<"wellformed.parent", FALSE>> >> ELSE
       LET c == DecodeNibs(e.cell)
           a == IF e.a = Omitted THEN c.r - 1 ELSE e.a IN
       IF a > c.r \/ a < -1 THEN << <<"C06.parent.raises", ~e.ok>> >>
       ELSE IF ~e.ok THEN << <<"C06.parent.total", FALSE>> >>
       ELSE IF ~ValidNibs(e.ret) THEN << <<"C06.parent.valid", FALSE>> >>
       ELSE << <<"C06.parent.exact", DecodeNibs(e.ret) = Anc(c, a)>>,
               <<"C06.parent.level", e.res = a>>,
               <<"C06.parent.descends", e.among>> >>
    [] e.ev = "compose" ->
       << <<"C06.compose.parent", e.ok /\ e.direct = e.via>>,
          <<"C06.compose.children", e.ok /\ ToSet(e.kids) = ToSet(e.kidsvia) /\ Len(e.kids) = Len(e.kidsvia)>> >>
    [] e.ev = "uncompact" ->
       IF ~AllValid(e.cells) THEN << <<"wellformed.uncompact", FALSE>> >> ELSE
       LET cs == Cells(e.cells) IN
       IF \E i \in 1..Len(cs) : cs[i].r > e.t THEN
            << <<"C10.raises", ~e.ok>>, <<"C10.argsame", e.argsame>> >>
       ELSE IF e.t > MaxAsk \/ e.t < 0 THEN << <<"C10.argsame", e.argsame>> >>
       ELSE IF ~e.ok THEN << <<"C10.total", FALSE>> >>
       ELSE IF ~AllValid(e.ret) THEN << <<"C10.valid", FALSE>> >>
       ELSE LET sizes == [i \in 1..Len(cs) |-> NumChildrenSmall(cs[i].r, e.t)]
                got == Cells(e.ret) IN
            IF Len(got) # SumSeq(sizes) THEN << <<"C10.length", FALSE>> >>
            ELSE LET bl == Blocks(got, sizes, 1) IN
            << <<"C10.level", \A i \in 1..Len(got) : got[i].r = e.t>>,
               <<"C10.blocks", \A i \in 1..Len(cs) : ToSet(bl[i]) = Desc(cs[i], e.t)>>,
               <<"C10.multiplicity", \A i \in 1..Len(cs) : Cardinality(ToSet(bl[i])) = Len(bl[i])>>,
               <<"C10.parentof", e.backok>>,
               <<"C10.sizing", e.sum = NormME(Len(got), 0)>>,
               <<"C10.argsame", e.argsame>> >>
    [] e.ev = "numcells" -> << <<"C20.numcells", e.num = NumCellsME(e.r)>> >>
    [] e.ev = "numchildren" ->
       << <<"C20.numchildren", e.num = NumChildrenME(e.a, e.b)>>,
          <<"C20.additive", e.a < 0 \/ e.b < e.a \/ MulME(NumCellsME(e.a), e.num) = NumCellsME(e.b)>> >>
    [] e.ev = "expand" ->
       << <<"C20.expand.count", e.distinct = NumCellsSmall(e.r) /\ e.total = e.distinct>>,
          <<"C20.expand.numcells", e.num = NormME(e.distinct, 0)>>,
          <<"C20.expand.sumchildren", \A i \in 1..Len(e.sums) : e.sums[i] = NormME(e.distinct, 0)>> >>
    [] e.ev = "len" ->
       << <<"C20.len", e.num = NormME(e.len, 0)>> >>
    [] e.ev = "sizing" ->
       << <<"C20.sizing.rule", e.rule = NormME(e.want, 0)>>,
          <<"C20.sizing.output", e.got = e.want /\ e.fillers = 0>> >>
    [] e.ev = "area" ->
       << <<"C20.area.decreasing", e.r < 0 \/ e.less>>,
          <<"C20.area.world", e.r >= 0 \/ e.notless>>,
          <<"C20.area.product", e.r < 0 \/ (e.ulps >= -4 /\ e.ulps <= 4)>> >>
    [] OTHER -> << <<"wellformed.event", FALSE>> >>

Judge(i) == LET bad == SelectSeq(Clauses(T[i]), LAMBDA x : ~x[2]) IN
            bad = <<>> \/ PrintT(<<"BAD", i, [k \in 1..Len(bad) |-> bad[k][1]]>>)
Init == l = 0
Next == \/ l = 0 /\ \E b \in 1..B : l' = -b
        \/ l < 0 /\ \E i \in ((-l - 1) * K + 1)..(IF (-l) * K < N THEN (-l) * K ELSE N) : l' = i /\ Judge(i)
Spec == Init /\ [][Next]_l
=============================================================================
