------------------------------- MODULE MC_Layout -------------------------------
(* Walker over the real hierarchy (real NF, NS, MaxRes): one state per cell down to Depth,
   plus, from every cell, one jump to a deep cell whose digit string continues with a
   pattern (all 0, all 3, 0333.., 1000.., 1212.., 3030..) to every resolution up to MaxRes.
   `id` carries the expected encoding so that the state dump can be replayed on the real
   serialize / deserialize / get_resolution (binding B1). *)
EXTENDS A5Layout, TLC
CONSTANTS Depth, DeepFrom
VARIABLES c, id, kind
vars == <<c, id, kind>>

IdOf(x) == IF EncodeOK(x) THEN EncodeNibs(x) ELSE <<>>

Init == c = World /\ id = IdOf(World) /\ kind = "walk"

Descend == /\ kind = "walk" /\ c.r < Depth
           /\ \E k \in Children1(c) : c' = k /\ id' = IdOf(k)
           /\ kind' = "walk"

PatDigit(p, i) == CASE p = "z" -> 0 [] p = "t" -> 3
                    [] p = "zt" -> (IF i = 1 THEN 0 ELSE 3)
                    [] p = "oz" -> (IF i = 1 THEN 1 ELSE 0)
                    [] p = "ot" -> (IF i % 2 = 1 THEN 1 ELSE 2)
                    [] p = "tz" -> (IF i % 2 = 1 THEN 3 ELSE 0)
Patterns == {"z", "t", "zt", "oz", "ot", "tz"}

\* continue the digit string of a walked cell with a pattern up to resolution r
Deep == /\ kind = "walk" /\ c.r = DeepFrom
        /\ \E p \in Patterns, r \in DeepFrom+1..MaxRes :
              LET n == r - c.r
                  k == [r |-> r, f |-> c.f, s |-> c.s, d |-> c.d \o [i \in 1..n |-> PatDigit(p, i)]]
              IN c' = k /\ id' = IdOf(k)
        /\ kind' = "deep"

Next == Descend \/ Deep
Spec == Init /\ [][Next]_vars

\* ---- design-level properties of the layout (C05) ----
TypeOK == IsCell(c)
Fits == c.r < MaxRes => EncodeOK(c)                      \* every position below MaxRes has an id
FitsAtMax == c.r = MaxRes => EncodeOK(c)                 \* ... and at MaxRes (fails: finding F4)
RoundTrip == EncodeOK(c) => LET b == Encode(c) IN
                 /\ Len(b) = W /\ Valid(b) /\ ResOf(b) = c.r /\ Decode(b) = c
                 /\ (c.r >= 0 => b # Zeros(W))
                 /\ Encode(Decode(b)) = b
IdMatches == id = IdOf(c)
=============================================================================
