------------------------------- MODULE A5Locate -------------------------------
(* The search automaton of lonlat_to_cell (a5/core/cell.py) with the geometry left to the
   environment: samples are turned into estimates (cell ids) one at a time; a new estimate is
   tested for containment; the first hit is returned, otherwise the closest candidate.
   Variables: seen (estimates so far, in order), hit (the returned id or "none"), k (samples used).
   The environment chooses each estimate and whether it contains the point. *)
EXTENDS Integers, Sequences, FiniteSets
CONSTANTS Ids, NSamples
VARIABLES seen, result, k
vars == <<seen, result, k>>
NoneYet == 0    \* ids are positive
Init == seen = <<>> /\ result = NoneYet /\ k = 0
Sample == /\ result = NoneYet /\ k < NSamples
          /\ \E e \in Ids :
               IF \E i \in 1..Len(seen) : seen[i][1] = e
               THEN k' = k + 1 /\ UNCHANGED <<seen, result>>                   \* duplicate estimate: skipped
               ELSE \E inside \in BOOLEAN :
                       /\ seen' = Append(seen, <<e, inside>>) /\ k' = k + 1
                       /\ result' = IF inside THEN e ELSE NoneYet
Fallback == /\ result = NoneYet /\ k = NSamples /\ seen # <<>>
            /\ \E i \in 1..Len(seen) : result' = seen[i][1]                     \* the closest candidate
            /\ UNCHANGED <<seen, k>>
Next == Sample \/ Fallback
Spec == Init /\ [][Next]_vars
\* laws of the mechanism (what Trace_Geo checks on the hook events of the real search)
Distinct == \A i, j \in 1..Len(seen) : i # j => seen[i][1] # seen[j][1]
OnlyLastHits == \A i \in 1..Len(seen) : seen[i][2] => i = Len(seen)
ResultSeen == result # NoneYet => \E i \in 1..Len(seen) : seen[i][1] = result
HitWins == (seen # <<>> /\ seen[Len(seen)][2]) => result = seen[Len(seen)][1]
=============================================================================
