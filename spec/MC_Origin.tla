------------------------------- MODULE MC_Origin -------------------------------
EXTENDS A5Origin, TLC
VARIABLES f, q
Init == f \in 0..NF-1 /\ q \in 0..NS-1
Next == UNCHANGED <<f, q>>
Spec == Init /\ [][Next]_<<f, q>>
Inverse == LET so == QuintantToSegment(q, f) IN SegmentToQuintant(so[1], f) = <<q, so[2]>>
Laws == InverseLaw /\ OntoLaw
=============================================================================
