SPECIFICATION Spec
CONSTANTS MaxLevel = 6
INVARIANT RoundTrip
INVARIANT InsideTriangle
INVARIANT PrefixNear
INVARIANT SiblingsDistinct
CHECK_DEADLOCK FALSE
