SPECIFICATION Spec
CONSTANTS Depth = 3
          DeepFrom = 2
          Span = 3
          DeepFaces = {0, 5, 11}
          DeepRes0 = {9, 14, 15, 28, 29}
          ListFaces = {0, 11}
          ListDepth = 2
          ExpCap = 300
INVARIANT TypeOK
INVARIANT ChildrenLaw
INVARIANT ParentLaw
INVARIANT ComposeLaw
INVARIANT UncompactLaw
CHECK_DEADLOCK FALSE
