------------------------------- MODULE MC_Compact -------------------------------
(* compact() as a state machine over REAL ids scaled by 2^-42 (exact for resolutions <= 9: all
   lower bits are zero and every shift / add of the algorithm commutes with the scaling).

   Input sets are built by an ordered Add over a focus sub-hierarchy of the real 12/5/4 tree
   (never SUBSET in Init).  Start runs a line-by-line transcription of a5/core/compact.py -
   sort by _sort_key, dedup, passes with is_first_child / get_stride / parent substitution -
   and records every pass (variable alg) so that the replay can compare pass by pass with the
   hook events of the real code.  Widen adds an ancestor of a member (non-antichain inputs).

   Invariants: the algorithm's result is the canonical set for antichains (C09), has no
   duplicates, and covers exactly the input region for every input (C08). *)
EXTENDS Integers, Sequences, FiniteSets, SequencesExt, FiniteSetsExt, TLC, A5Params
CONSTANTS SortMode,        \* "hier" = _sort_key of the code, "numeric" = plain numeric order (the defect fixed by be0dab5)
          SegFaces,        \* faces whose five segments are in the universe
          Refinable,       \* <<face, segment#>> pairs whose four resolution-2 children are in the universe
          Deep,            \* resolution-2 cells <<face, seg#, S>> whose four resolution-3 children are in the universe
          BlockFaces       \* faces that are added all together or not at all

SH == StartBit - 42
P2(n) == 2^n
\* cell = <<r, f, sn, S>>, sn = segment number in id order
Id(c) == LET r == c[1] IN
  IF r = -1 THEN 0 ELSE
  LET R == IF r < 2 THEN r + 1 ELSE 2 * (r - 1) + 1
      top == IF r = 0 THEN c[2] ELSE NS * c[2] + c[3]
  IN top * P2(SH) + (IF r >= 2 THEN c[4] * P2(SH - 2 * (r - 1)) ELSE 0) + P2(SH - R)
Faces == { <<0, f, 0, 0>> : f \in 0..NF-1 }
Segs  == { <<1, f, s, 0>> : f \in SegFaces, s \in 0..NS-1 }
Kids  == { <<2, fs[1], fs[2], S>> : fs \in Refinable, S \in 0..3 }
GKids == { <<3, k[1], k[2], 4 * k[3] + q>> : k \in Deep, q \in 0..3 }
Universe == Faces \cup Segs \cup Kids \cup GKids
ParentCell(c) == CASE c[1] = 0 -> <<-1, 0, 0, 0>> [] c[1] = 1 -> <<0, c[2], 0, 0>> [] c[1] = 2 -> <<1, c[2], c[3], 0>>
                   [] OTHER -> <<c[1] - 1, c[2], c[3], c[4] \div 4>>
RECURSIVE AncC(_)
AncC(c) == IF c[1] = -1 THEN {} ELSE {ParentCell(c)} \cup AncC(ParentCell(c))
AllCells == Universe \cup UNION { AncC(c) : c \in Universe }
CellOf == [ i \in { Id(c) : c \in AllCells } |-> CHOOSE c \in AllCells : Id(c) = i ]
AllIds == DOMAIN CellOf
Res(i) == CellOf[i][1]
Parent(i) == Id(ParentCell(CellOf[i]))
AncIds == [ i \in AllIds |-> { Id(a) : a \in AncC(CellOf[i]) } ]
UIds == { Id(c) : c \in Universe }
Block == { Id(<<0, f, 0, 0>>) : f \in BlockFaces }

\* ---- transcription of serialization.is_first_child / get_stride and compact._sort_key (scaled) ----
IsFirstChild(i) == LET r == Res(i) IN
   IF r < 2 THEN (i \div P2(SH)) % (IF r = 0 THEN NF ELSE NS) = 0       \* 12 and 5 in the code
   ELSE (i \div P2(2 * (MaxRes - r) - 42)) % 4 = 0
Stride(r) == IF r < 2 THEN P2(SH) ELSE P2(2 * (MaxRes - r) - 42)
Expected(r) == IF r >= 2 THEN 4 ELSE IF r = 0 THEN NF ELSE NS             \* 4 / 12 / 5 in the code
SortKey(i) == IF Res(i) = 0 THEN i + ((NS - 1) * (i \div P2(SH))) * P2(SH) ELSE i      \* 4 * face in the code (NS = 5)
KeyLess(a, b) == IF SortMode = "hier" THEN SortKey(a) < SortKey(b) ELSE a < b

RECURSIVE Scan(_, _, _)
\* one pass of the inner while loop: acc = <<result, changed>>
Scan(cur, i, acc) ==
  IF i > Len(cur) THEN acc ELSE
  LET cell == cur[i] r == Res(cell) IN
  IF r < 0 THEN Scan(cur, i + 1, <<Append(acc[1], cell), acc[2]>>) ELSE
  LET n == Expected(r)
      ok == /\ i - 1 + n <= Len(cur) /\ IsFirstChild(cell)
            /\ \A j \in 1..n-1 : cur[i + j] = cell + j * Stride(r)
  IN IF ok THEN Scan(cur, i + n, <<Append(acc[1], Parent(cell)), TRUE>>)
     ELSE Scan(cur, i + 1, <<Append(acc[1], cell), acc[2]>>)
RECURSIVE Passes(_, _)
\* the sequence of lists: after sort/dedup, then after every pass (the last pass changes nothing)
Passes(cur, hist) == LET res == Scan(cur, 1, << <<>>, FALSE >>) IN
                     IF res[2] THEN Passes(res[1], Append(hist, res[1])) ELSE Append(hist, res[1])
AlgTrace(S) == IF S = {} THEN <<>> ELSE LET s0 == SetToSortSeq(S, KeyLess) IN Passes(s0, <<s0>>)
AlgResult(S) == IF S = {} THEN <<>> ELSE Last(AlgTrace(S))

\* ---- reference on this universe ----
SibsOf(i) == { j \in AllIds : Res(j) = Res(i) /\ Parent(j) = Parent(i) }
FullGroup(i) == Cardinality(SibsOf(i)) = Expected(Res(i))
RECURSIVE Canon(_)
Canon(S) == LET m == { i \in S : Res(i) >= 0 /\ FullGroup(i) /\ SibsOf(i) \subseteq S } IN
            IF m = {} THEN S ELSE LET i == CHOOSE x \in m : TRUE IN Canon((S \ SibsOf(i)) \cup {Parent(i)})
Norm(S) == { i \in S : AncIds[i] \cap S = {} }
Comparable(a, b) == a = b \/ a \in AncIds[b] \/ b \in AncIds[a]
IsAntichain(S) == \A a, b \in S : a # b => ~Comparable(a, b)

VARIABLES input, phase, alg
vars == <<input, phase, alg>>
Init == input = {} /\ phase = "build" /\ alg = <<>>
Add == /\ phase = "build"
       /\ \E i \in UIds \ Block : (\A j \in input : ~Comparable(i, j) /\ j < i) /\ input' = input \cup {i}
       /\ UNCHANGED <<phase, alg>>
AddBlock == /\ phase = "build" /\ Block # {} /\ input \cap Block = {}
            /\ \A b \in Block : \A j \in input : ~Comparable(b, j)
            /\ input' = input \cup Block /\ phase' = "blocked" /\ UNCHANGED alg
AddAfter == /\ phase = "blocked"
            /\ \E i \in UIds \ Block : (\A j \in input : ~Comparable(i, j)) /\ (\A j \in input \ Block : j < i)
                                       /\ input' = input \cup {i}
            /\ UNCHANGED <<phase, alg>>
Start == /\ phase \in {"build", "blocked"} /\ input # {}
         /\ alg' = AlgTrace(input) /\ phase' = "ran" /\ UNCHANGED input
\* non-antichain variant: the caller also passes an ancestor of one member
Widen == /\ phase = "ran" /\ Cardinality(input) <= 6
         /\ \E i \in input : \E a \in AncIds[i] : a \notin input /\ input' = input \cup {a} /\ alg' = AlgTrace(input \cup {a})
         /\ phase' = "wide"
Next == Add \/ AddBlock \/ AddAfter \/ Start \/ Widen
Spec == Init /\ [][Next]_vars

Ran == phase \in {"ran", "wide"}
Result == ToSet(Last(alg))
AlgIsCanon == Ran /\ IsAntichain(input) => Result = Canon(input)                 \* C09
AlgNoDup == Ran /\ IsAntichain(input) => Len(Last(alg)) = Cardinality(Result)      \* C09 (antichains only: for an input that
                                                                                   \* holds a cell AND all its children the merged parent appears twice)
AlgNoGroup == Ran /\ IsAntichain(input) => \A i \in Result : Res(i) >= 0 /\ FullGroup(i) => ~(SibsOf(i) \subseteq Result)
AlgCover == Ran => Canon(Norm(Result)) = Canon(Norm(input))                       \* C08
AlgShrinks == Ran => \A k \in 1..Len(alg)-1 : Len(alg[k+1]) <= Len(alg[k])        \* termination variant
AlgSorted == Ran => \A k \in 1..Len(alg) : \A x \in 1..Len(alg[k])-1 : KeyLess(alg[k][x], alg[k][x+1]) \/ SortMode # "hier" \/ ~IsAntichain(input)
=============================================================================
