------------------------------- MODULE A5Session -------------------------------
(* A client session: the client holds a working list ws of cells and applies API operations to it.
   This is the multi-step state machine of the hierarchy / compaction API; TLC produces behaviours of
   it (-simulate) and the harness steps the real API through every behaviour, comparing the abstract
   state after each action (binding B1 for histories).

     Seed(c)        ws := <<c>>
     Refine(i)      ws[i] replaced by its children              cell_to_children(ws[i])
     RefineTo(i,b)  ws[i] replaced by its descendants at b       cell_to_children(ws[i], b)
     Coarsen(i,a)   ws[i] replaced by its ancestor at a          cell_to_parent(ws[i], a)
     Dup(i) Drop(i) Rotate                                       list edits by the client
     Compact        ws := canonical form (enabled for antichains, duplicates allowed)      compact(ws)
     Uncompact(t)   ws := concatenation of descendants at t      uncompact(ws, t)
     UncompactBad(t) some member finer than t: the call raises, ws unchanged
   `op` records the last action with its parameters so that a behaviour can be replayed. *)
EXTENDS A5Layout, SequencesExt, FiniteSetsExt, TLC
CONSTANTS MaxLen, MaxR, MaxSteps
VARIABLES ws, op, steps
vars == <<ws, op, steps>>

Seeds == {World, Face(0), Face(NF - 1), Face(5), Seg(0, 1), Seg(6, 3), Cell(0, 1, <<2>>), Cell(NF - 1, 4, <<3, 0>>)}
\* a total order on cells (only used to fix the order of lists the spec builds)
KeyOf(c) == <<c.r + 1, c.f, c.s>> \o c.d
RECURSIVE SeqLess(_, _)
SeqLess(a, b) == IF a = <<>> THEN b # <<>>
                 ELSE IF b = <<>> THEN FALSE
                 ELSE IF a[1] # b[1] THEN a[1] < b[1] ELSE SeqLess(Tail(a), Tail(b))
CellLess(a, b) == SeqLess(KeyOf(a), KeyOf(b))
Sorted(S) == SetToSortSeq(S, CellLess)
Splice(s, i, t) == SubSeq(s, 1, i - 1) \o t \o SubSeq(s, i + 1, Len(s))
RECURSIVE Flat(_)
Flat(ss) == IF ss = <<>> THEN <<>> ELSE ss[1] \o Flat(Tail(ss))
Op(n, i, x) == [name |-> n, i |-> i, x |-> x]

Init == ws = <<>> /\ op = Op("init", 0, 0) /\ steps = 0
Seed == \E c \in Seeds : ws' = <<c>> /\ op' = Op("seed", 0, 0)
Refine == \E i \in 1..Len(ws) : ws[i].r < MaxR /\ Len(ws) + Fanout(ws[i].r) <= MaxLen
             /\ ws' = Splice(ws, i, Sorted(Children1(ws[i]))) /\ op' = Op("refine", i, 0)
RefineTo == \E i \in 1..Len(ws) : \E b \in ws[i].r..MaxR :
             /\ NumChildrenSmall(ws[i].r, b) + Len(ws) <= MaxLen
             /\ ws' = Splice(ws, i, Sorted(Desc(ws[i], b))) /\ op' = Op("refineto", i, b)
Coarsen == \E i \in 1..Len(ws) : \E a \in -1..ws[i].r :
             ws' = Splice(ws, i, <<Anc(ws[i], a)>>) /\ op' = Op("coarsen", i, a)
Dup == \E i \in 1..Len(ws) : Len(ws) < MaxLen /\ ws' = Append(ws, ws[i]) /\ op' = Op("dup", i, 0)
Drop == \E i \in 1..Len(ws) : Len(ws) > 1 /\ ws' = Splice(ws, i, <<>>) /\ op' = Op("drop", i, 0)
Rotate == Len(ws) > 1 /\ ws' = Tail(ws) \o <<Head(ws)>> /\ op' = Op("rotate", 0, 0)
Compact == /\ ws # <<>> /\ IsAntichain(ToSet(ws))
           /\ ws' = Sorted(Canon(ToSet(ws))) /\ op' = Op("compact", 0, 0)
RECURSIVE SumPairs(_)
SumPairs(T) == IF T = {} THEN 0 ELSE LET x == CHOOSE y \in T : TRUE IN x[2] + SumPairs(T \ {x})
MaxRof(s) == Max({ s[i].r : i \in 1..Len(s) })
Uncompact == \E t \in 0..MaxR : /\ ws # <<>> /\ \A i \in 1..Len(ws) : ws[i].r <= t
             /\ SumPairs({ <<i, NumChildrenSmall(ws[i].r, t)>> : i \in 1..Len(ws) }) <= MaxLen
             /\ ws' = Flat([i \in 1..Len(ws) |-> Sorted(Desc(ws[i], t))]) /\ op' = Op("uncompact", 0, t)
UncompactBad == \E t \in -1..MaxR : /\ ws # <<>> /\ \E i \in 1..Len(ws) : ws[i].r > t
             /\ UNCHANGED ws /\ op' = Op("uncompactbad", 0, t)
Next == /\ steps < MaxSteps /\ steps' = steps + 1
        /\ IF ws = <<>> THEN Seed
           ELSE Refine \/ RefineTo \/ Coarsen \/ Dup \/ Drop \/ Rotate \/ Compact \/ Uncompact \/ UncompactBad \/ Seed
Spec == Init /\ [][Next]_vars

\* ---- laws of the session (design level) ----
TypeOK == \A i \in 1..Len(ws) : IsCell(ws[i])
\* compaction never changes the covered region and is canonical
CompactLaw == op.name = "compact" => /\ NoCompleteGroup(ToSet(ws)) /\ IsAntichain(ToSet(ws))
                                     /\ Len(ws) = Cardinality(ToSet(ws))
\* uncompact yields one level only
UncompactLaw == op.name = "uncompact" => \A i \in 1..Len(ws) : ws[i].r = op.x
\* ---- the covered region (finest level of the bounded model) under every operation ----
CoverOf(s) == Cover(ToSet(s), MaxR)
CoverLemma == Cover(CanonCover(ToSet(ws)), MaxR) = CoverOf(ws)            \* the reference compaction keeps the region
CanonIdempotent == op.name = "compact" => Canon(ToSet(ws)) = ToSet(ws)
CompactKeepsCover == [][op'.name = "compact" => CoverOf(ws') = CoverOf(ws)]_vars
SameCoverOps == [][op'.name \in {"refine", "refineto", "uncompact", "dup", "rotate", "uncompactbad"} => CoverOf(ws') = CoverOf(ws)]_vars
CoarsenGrows == [][op'.name = "coarsen" => CoverOf(ws) \subseteq CoverOf(ws')]_vars
DropShrinks == [][op'.name = "drop" => CoverOf(ws') \subseteq CoverOf(ws)]_vars
=============================================================================
