SPECIFICATION Spec
CONSTANTS Stride = 16
INVARIANT RoundTrip
INVARIANT Canonical
INVARIANT UpperOK
INVARIANT PaddedOK
CHECK_DEADLOCK FALSE
