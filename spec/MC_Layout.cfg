SPECIFICATION Spec
CONSTANTS Depth = 4
          DeepFrom = 3
INVARIANT TypeOK
INVARIANT Fits
INVARIANT RoundTrip
INVARIANT IdMatches
CHECK_DEADLOCK FALSE
