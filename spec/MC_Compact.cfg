SPECIFICATION Spec
CONSTANTS SortMode = "hier"
          SegFaces = {0, 1, 11}
          Refinable = {}
          Deep = {}
          BlockFaces = {2, 3, 4, 5, 6, 7, 8, 9, 10}
INVARIANT AlgIsCanon
INVARIANT AlgNoDup
INVARIANT AlgNoGroup
INVARIANT AlgCover
INVARIANT AlgShrinks
INVARIANT AlgSorted
CHECK_DEADLOCK FALSE
