------------------------------- MODULE A5Geo -------------------------------
(* Integer geometry used to judge coordinates returned by the library (C02, C12).
   Angles travel as micro-degrees (|lon| <= 273e6 < 2^31); shapes travel as points of a local
   integer grid (|x|, |y| <= 4000, affine image of lon/lat around a reference point), so that
   every cross product stays far below 2^31. *)
EXTENDS Integers, Sequences, FiniteSets

U == 1000000                      \* micro-degrees per degree
Abs(x) == IF x < 0 THEN -x ELSE x
\* wrap a longitude difference into (-180, 180] degrees
Wrap(dl) == ((dl + 180 * U) % (360 * U)) - 180 * U
RECURSIVE SumRange(_, _, _)
\* divide and conquer: recursion depth log2(Len), rings have up to 321 vertices
SumRange(s, lo, hi) == IF lo > hi THEN 0 ELSE IF lo = hi THEN s[lo]
                       ELSE LET m == (lo + hi) \div 2 IN SumRange(s, lo, m) + SumRange(s, m + 1, hi)
SumSeqI(s) == SumRange(s, 1, Len(s))
Nxt(i, n) == IF i = n THEN 1 ELSE i + 1

\* ring = sequence of <<lon, lat>> in micro-degrees, not closed
LonTurn(ring) == SumSeqI([i \in 1..Len(ring) |-> Wrap(ring[Nxt(i, Len(ring))][1] - ring[i][1])])
\* a pole lies in or on the cell: a vertex at the pole, or the longitudes wind once around it
HoldsPole(ring) == \/ \E i \in 1..Len(ring) : Abs(ring[i][2]) >= 90 * U - 1
                   \/ Abs(LonTurn(ring)) >= 359 * U
LatOK(ring) == \A i \in 1..Len(ring) : Abs(ring[i][2]) <= 90 * U
NoJump(ring) == \A i \in 1..Len(ring) : Abs(ring[Nxt(i, Len(ring))][1] - ring[i][1]) < 180 * U
SpanOK(ring) == \A i, j \in 1..Len(ring) : Abs(ring[i][1] - ring[j][1]) < 180 * U

\* ---- local grid: g = sequence of <<x, y>> ----
IsLeft(a, b) == a[1] * (b[2] - a[2]) - a[2] * (b[1] - a[1])        \* orientation of (a, b, origin)
WindTerm(a, b) == IF a[2] <= 0 THEN (IF b[2] > 0 /\ IsLeft(a, b) > 0 THEN 1 ELSE 0)
                  ELSE (IF b[2] <= 0 /\ IsLeft(a, b) < 0 THEN -1 ELSE 0)
Winding(g) == SumSeqI([i \in 1..Len(g) |-> WindTerm(g[i], g[Nxt(i, Len(g))])])
OnEdge(a, b) == /\ IsLeft(a, b) = 0
                /\ (IF a[1] < b[1] THEN a[1] ELSE b[1]) <= 0 /\ 0 <= (IF a[1] < b[1] THEN b[1] ELSE a[1])
                /\ (IF a[2] < b[2] THEN a[2] ELSE b[2]) <= 0 /\ 0 <= (IF a[2] < b[2] THEN b[2] ELSE a[2])
\* the origin of the grid lies strictly inside the polygon g
OriginInside(g) == /\ Winding(g) # 0
                   /\ \A i \in 1..Len(g) : ~OnEdge(g[i], g[Nxt(i, Len(g))])
Shoelace(g) == SumSeqI([i \in 1..Len(g) |-> g[i][1] * g[Nxt(i, Len(g))][2] - g[Nxt(i, Len(g))][1] * g[i][2]])
CCW(g) == Shoelace(g) > 0
Orient(p, q, r) == (q[1] - p[1]) * (r[2] - p[2]) - (q[2] - p[2]) * (r[1] - p[1])
Sgn(x) == IF x > 0 THEN 1 ELSE IF x < 0 THEN -1 ELSE 0
ProperCross(a, b, c, d) == /\ Sgn(Orient(a, b, c)) * Sgn(Orient(a, b, d)) < 0
                           /\ Sgn(Orient(c, d, a)) * Sgn(Orient(c, d, b)) < 0
\* no two non-adjacent edges cross
Simple(g) == LET n == Len(g) IN
             \A i, j \in 1..n : (i < j /\ Nxt(i, n) # j /\ Nxt(j, n) # i) =>
                 ~ProperCross(g[i], g[Nxt(i, n)], g[j], g[Nxt(j, n)])
=============================================================================
