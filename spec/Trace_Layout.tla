------------------------------- MODULE Trace_Layout -------------------------------
(* Judges observations of the real serialize / get_resolution / deserialize / get_num_cells
   (C05) with the operators of A5Layout.  Events are independent, so every event is judged in
   its own state (two-level fan-out so that all workers take part); verdicts are total: a
   failing clause is printed as <<"BAD", line, <<clauses>>>> and the event is still consumed.
   Clauses named C05.* are clauses of the property statement evaluated on real outputs;
   clauses named drift.* compare the real id with the structural layout of the specification
   (a disagreement there alone is model drift, not a violation). *)
EXTENDS A5Layout, TLC, Json, IOUtils
T == ndJsonDeserialize(IOEnv.TRACE_FILE)
N == Len(T)
B == 64
K == (N + B - 1) \div B
VARIABLE l

CellOf(e) == [r |-> e.r, f |-> e.f, s |-> e.s, d |-> e.d]
SameCell(x, e) == x.r = e.r /\ x.f = e.f /\ x.s = e.s /\ x.d = e.d

Clauses(e) ==
  CASE e.ev = "enc" ->
         LET c == CellOf(e) IN
         IF ~IsCell(c) \/ c.r < 0 THEN << <<"wellformed.enc", FALSE>> >>
         ELSE IF ~e.ok THEN << <<"C05.fits", FALSE>> >>
         ELSE << <<"C05.range", ~e.wide /\ Len(e.id) = 16 /\ e.id # Zeros(16)>>,
                 <<"C05.res", e.res = e.r>>,
                 <<"C05.decode", e.dec.ok /\ SameCell(e.dec, e)>>,
                 <<"C05.reencode", e.re = e.id>>,
                 <<"drift.fits", EncodeOK(c)>>,
                 <<"drift.layout", EncodeOK(c) => e.id = EncodeNibs(c)>>,
                 <<"drift.expected", e.exp = <<>> \/ e.exp = e.id>>,
                 <<"drift.decode", EncodeOK(c) /\ Len(e.id) = 16 => ValidNibs(e.id) /\ DecodeNibs(e.id) = c>> >>
    [] e.ev = "kidsmax" ->
         \* expanding a cell to MaxRes through the hierarchy API: either these positions get proper ids or the call refuses
         IF ~e.ok THEN << <<"C05.fits", FALSE>> >>
         ELSE << <<"C05.res", e.allres>>, <<"C05.unique", e.distinct /\ e.n = e.want>>, <<"C05.decode", e.parentok>> >>
    [] e.ev = "nofit" -> << <<"C05.nofit", e.raised>> >>
    [] e.ev = "count" ->
         << <<"C05.count.norep", e.distinct = e.total>>,
            <<"C05.count.num", e.num = NormME(e.distinct, 0)>>,
            <<"C05.count.tree", e.distinct = NumCellsSmall(e.r)>>,
            <<"C05.count.resolution", e.allres>> >>
    [] e.ev = "numcells" -> << <<"C05.count.closedform", e.num = NumCellsME(e.r)>> >>
    [] OTHER -> << <<"wellformed.event", FALSE>> >>

Judge(i) == LET bad == SelectSeq(Clauses(T[i]), LAMBDA x : ~x[2]) IN
            bad = <<>> \/ PrintT(<<"BAD", i, [k \in 1..Len(bad) |-> bad[k][1]]>>)

Init == l = 0
Next == \/ l = 0 /\ \E b \in 1..B : l' = -b
        \/ l < 0 /\ \E i \in ((-l - 1) * K + 1)..(IF (-l) * K < N THEN (-l) * K ELSE N) : l' = i /\ Judge(i)
Spec == Init /\ [][Next]_l
=============================================================================
