------------------------------- MODULE Trace_Hilbert -------------------------------
(* Judges observations of the real s_to_anchor / get_pentagon_vertices(..).get_center() /
   ij_to_s (C18) with the laws of A5Hilbert.  C18.* clauses are the clauses of the property
   evaluated on real anchors, real (quantised) centres and real indices; drift.* clauses compare
   the real values with the transcribed automaton. *)
EXTENDS A5Hilbert, TLC, Json, IOUtils, FiniteSetsExt
T == ndJsonDeserialize(IOEnv.TRACE_FILE)
N == Len(T)
B == 64
K == (N + B - 1) \div B
VARIABLE l

RECURSIVE P4(_)
P4(n) == IF n = 0 THEN 1 ELSE 4 * P4(n - 1)
Near(x, y) == LET dd == SubF(x, y) IN (dd[1] = 0 /\ dd[2] <= 3) \/ (dd[1] = -1 /\ dd[2] >= D - 3)

Clauses(e) ==
  CASE e.ev = "cell" ->
       IF ~(e.o \in Orients /\ Len(e.d) = e.h /\ e.h >= 1 /\ \A i \in 1..e.h : e.d[i] \in 0..3) THEN << <<"wellformed.cell", FALSE>> >> ELSE
       IF ~e.ok THEN << <<"C18.total", FALSE>> >> ELSE
       LET m == SToAnchor(e.d, e.o) IN
       << <<"C18.roundtrip", e.back = e.d>>,
          <<"C18.roundtrip.repeat", e.back2 = e.d /\ e.back3 = e.d>>,
          <<"C18.inside", Inside(e.c, e.h)>>,
          <<"C18.prefix", e.pc = <<>> \/ PrefixClose(e.c, e.pc)>>,
          <<"C18.fill.area", e.pv = <<>> \/ HalfParallelogram(e.pv, e.c)>>,
          <<"drift.anchor", e.k = m.k /\ e.off = m.off /\ e.fl = m.fl>>,
          <<"drift.centre", Near(e.c[1], Centre(m)[1]) /\ Near(e.c[2], Centre(m)[2])>>,
          <<"drift.back", IJToS(e.c, e.h, e.o) = e.back>> >>
    [] e.ev = "level" ->
       LET S == { e.tris[i] : i \in 1..Len(e.tris) } IN
       << <<"C18.distinct", Cardinality(S) = Len(e.tris)>>,
          <<"C18.fill", Len(e.tris) = P4(e.h) /\ \A t \in S : t[1] >= 0 /\ t[2] >= 0 /\ t[1] + t[2] + t[3] < 2^e.h>> >>
    [] OTHER -> << <<"wellformed.event", FALSE>> >>

Judge(i) == LET bad == SelectSeq(Clauses(T[i]), LAMBDA x : ~x[2]) IN
            bad = <<>> \/ PrintT(<<"BAD", i, [k \in 1..Len(bad) |-> bad[k][1]]>>)
Init == l = 0
Next == \/ l = 0 /\ \E b \in 1..B : l' = -b
        \/ l < 0 /\ \E i \in ((-l - 1) * K + 1)..(IF (-l) * K < N THEN (-l) * K ELSE N) : l' = i /\ Judge(i)
Spec == Init /\ [][Next]_l
=============================================================================
