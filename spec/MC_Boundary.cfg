SPECIFICATION Spec
INVARIANT LenLaw
INVARIANT ClosureLaw
INVARIANT CornerLaw
INVARIANT NoRepeatLaw
CHECK_DEADLOCK FALSE
