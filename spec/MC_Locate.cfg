SPECIFICATION Spec
CONSTANTS Ids = {1, 2, 3}
          NSamples = 4
INVARIANT Distinct
INVARIANT OnlyLastHits
INVARIANT ResultSeen
INVARIANT HitWins
CHECK_DEADLOCK FALSE
