------------------------------- MODULE A5Threads -------------------------------
(* Two threads, each executing one API call, as recorded SHARED-ACCESS PROGRAMS:
   a program is a sequence of <<op, loc, digest>>, op in {"R", "W"}, over the shared locations of
   the library (elements of module-level containers and of the containers held by module-level
   singletons).  The programs are recorded from the current tree at check time (binding B3).

   Classification, computed from the programs themselves:
     Padding   a write of None (index-addressed caches are extended with None before a slot is filled)
     Scratch   a location written with two different non-padding digests: its content is call-specific
     Cache     a location all of whose non-padding writes carry ONE digest (idempotent fill)
   Discipline:  NoForeignRead - a thread never reads a Scratch location last written by the other
   thread.  Under the discipline the result of a call cannot depend on the interleaving; the classic
   double-miss / double-fill race on a Cache location is harmless because both writers store the same
   value (CacheIdempotent holds by construction of the class).
   Threads step one access at a time; CONSTRAINT bounds the number of context switches. *)
EXTENDS Integers, Sequences, FiniteSets, TLC, Json, IOUtils
P == JsonDeserialize(IOEnv.PROGS)
Pairs == P.pairs
NONE == P.none                       \* digest of None
MaxSwitch == 2

Prog(p, t) == IF t = "A" THEN Pairs[p].A ELSE Pairs[p].B
Writes(p) == { <<e[2], e[3]>> : e \in { Pairs[p].A[i] : i \in 1..Len(Pairs[p].A) } \cup { Pairs[p].B[i] : i \in 1..Len(Pairs[p].B) } }
\* only W events matter for the classification
WEvents(p) == { e \in { Pairs[p].A[i] : i \in 1..Len(Pairs[p].A) } \cup { Pairs[p].B[i] : i \in 1..Len(Pairs[p].B) } : e[1] = "W" }
ScratchOf == [p \in 1..Len(Pairs) |-> { loc \in { e[2] : e \in WEvents(p) } :
                  Cardinality({ e[3] : e \in { x \in WEvents(p) : x[2] = loc /\ x[3] # NONE } }) > 1 }]
Scratch(p) == ScratchOf[p]
\* locations the B program of a pair touches
Touched == [p \in 1..Len(Pairs) |-> { Pairs[p].B[i][2] : i \in 1..Len(Pairs[p].B) }]

\* a foreign read is TORN when it sees an update of A half-way: B reads a location A will write again in this
\* call, or A reads back a location it wrote earlier in this call and B has overwritten since
Torn(p, reader, loc, pcA) == LET PA == Pairs[p].A IN
    IF reader = "B" THEN \E i \in pcA..Len(PA) : PA[i][1] = "W" /\ PA[i][2] = loc
    ELSE \E i \in 1..(pcA - 1) : PA[i][1] = "W" /\ PA[i][2] = loc

VARIABLES pair, pc, owner, switches, last
\* Of the many states in which the same foreign read happens only the informative schedules are reported:
\* A reads a location B owns once B has run to completion (the one-preemption schedule A..B..A); B reads a location
\* A owns with A stopped right after its write of it or right before its next access of it (the two ends of the window)
Informative(p, reader, loc) ==
    LET PA == Pairs[p].A PB == Pairs[p].B IN
    IF reader = "A" THEN pc["B"] > Len(PB)
    ELSE \/ (pc["A"] > 1 /\ PA[pc["A"] - 1][1] # "R" /\ PA[pc["A"] - 1][2] = loc)
         \/ (pc["A"] <= Len(PA) /\ PA[pc["A"]][2] = loc)
vars == <<pair, pc, owner, switches, last>>
Init == /\ pair \in 1..Len(Pairs)
        /\ pc = [t \in {"A", "B"} |-> 1]
        /\ owner = [loc \in {} |-> "none"]
        /\ switches = 0 /\ last = "A"

Step(t) ==
  /\ pc[t] <= Len(Prog(pair, t))
  /\ LET e == Prog(pair, t)[pc[t]]
         scr == e[2] \in Scratch(pair)
         own == IF e[2] \in DOMAIN owner THEN owner[e[2]] ELSE "none" IN
     /\ (IF e[1] = "R" /\ scr /\ own # t /\ own # "none" /\ Informative(pair, t, e[2])
         THEN PrintT(<<"FOREIGN", pair, t, pc[t], e[2], pc[IF t = "A" THEN "B" ELSE "A"], Torn(pair, t, e[2], pc["A"])>>) ELSE TRUE)
     \* a fill of a Cache location that the other call also touches: harmless iff the fill is atomic,
     \* which the model cannot know - reported as a candidate window for line-level replay
     /\ (IF e[1] = "W" /\ ~scr /\ e[3] # NONE /\ t = "A" /\ switches = 0 /\ e[2] \in Touched[pair]
         THEN PrintT(<<"FILL", pair, pc[t], e[2]>>) ELSE TRUE)
     /\ owner' = IF e[1] = "W" /\ scr THEN [loc \in DOMAIN owner \cup {e[2]} |-> IF loc = e[2] THEN t ELSE owner[loc]]
                 ELSE owner
  /\ pc' = [pc EXCEPT ![t] = @ + 1]
  /\ switches' = IF t = last THEN switches ELSE switches + 1
  /\ last' = t
  /\ UNCHANGED pair
Next == \E t \in {"A", "B"} : Step(t)
Spec == Init /\ [][Next]_vars
Bound == switches <= MaxSwitch
\* both calls always run to completion (no blocking): checked as absence of deadlock before the end
Finished == pc["A"] > Len(Prog(pair, "A")) /\ pc["B"] > Len(Prog(pair, "B"))
ScratchFree == Scratch(pair) = {}
=============================================================================
