------------------------------- MODULE A5Hilbert -------------------------------
(* Transcription of a5/core/hilbert.py over integers: the digit machine of the curve.
   digits are LSB-first, 1-based: d[i+1] is python's digits[i].  Orientation o in
   {"uv","vu","uw","wu","vw","wv"}.  Lattice coordinates are integers (offsets) or floor-form
   rationals <<n, f>> = n + f/D, 0 <= f < D (pentagon centres); every comparison a centre takes
   part in is against an integer and every centre is >= 0.14 lattice units from the lattice
   lines it is compared with, so the 4-digit quantisation never decides a test. *)
EXTENDS Integers, Sequences, FiniteSets, A5Params

Orients == {"uv", "vu", "uw", "wu", "vw", "wv"}
YES == -1
NO == 1
D == 10000
ASSUME /\ Len(Pattern) = 8 /\ Len(PatternFlipped) = 8
       /\ {Pattern[i] : i \in 1..8} = 0..7 /\ {PatternFlipped[i] : i \in 1..8} = 0..7

Rev(p) == [i \in 1..8 |-> (CHOOSE k \in 1..8 : p[k] = i - 1) - 1]
QFlips(n) == CASE n = 0 -> <<NO, NO>> [] n = 1 -> <<NO, YES>> [] n = 2 -> <<NO, NO>> [] n = 3 -> <<YES, NO>>
QToKJ(n, fl) ==
  LET p == CASE fl = <<NO,NO>> -> <<1,0>> [] fl = <<YES,NO>> -> <<0,-1>> [] fl = <<NO,YES>> -> <<0,1>> [] fl = <<YES,YES>> -> <<-1,0>>
      q == CASE fl = <<NO,NO>> -> <<0,1>> [] fl = <<YES,NO>> -> <<-1,0>> [] fl = <<NO,YES>> -> <<1,0>> [] fl = <<YES,YES>> -> <<0,-1>>
  IN CASE n = 0 -> <<0,0>> [] n = 1 -> p [] n = 2 -> <<p[1]+q[1], p[2]+q[2]>> [] n = 3 -> <<q[1]+2*p[1], q[2]+2*p[2]>>
KJtoIJ(kj) == <<kj[1] - kj[2], kj[2]>>

\* _shift_digits: rearranges digit i (and carries into digit i+1) according to the pattern
Shift(d, i, fl, invj, pat) ==
  IF i <= 0 THEN d ELSE
  LET pk == IF i < Len(d) THEN d[i+1] ELSE 0
      ck == d[i]
      F == fl[1] + fl[2]
      alt == (invj # (F = 0))
      needs == IF alt THEN pk \in {1,2} ELSE pk < 2
      first == IF alt THEN pk = 1 ELSE pk = 0
  IN IF ~needs THEN d ELSE
     LET src == IF first THEN ck ELSE ck + 4
         dst == pat[src + 1]
         d1 == [d EXCEPT ![i] = dst % 4]
     IN IF i < Len(d) THEN [d1 EXCEPT ![i+1] = (pk + 4 + (dst \div 4) - (src \div 4)) % 4] ELSE d1
Mul(a, b) == <<a[1]*b[1], a[2]*b[2]>>
RECURSIVE Loop1(_, _, _, _, _)
Loop1(d, i, fl, invj, pat) == IF i < 0 THEN d ELSE
  LET d2 == Shift(d, i, fl, invj, pat) IN Loop1(d2, i-1, Mul(fl, QFlips(d2[i+1])), invj, pat)
RECURSIVE Loop2(_, _, _, _)
Loop2(d, i, fl, off) == IF i < 0 THEN <<off, fl>> ELSE
  LET co == QToKJ(d[i+1], fl) IN Loop2(d, i-1, Mul(fl, QFlips(d[i+1])), <<2*off[1]+co[1], 2*off[2]+co[2]>>)
SToAnchorInner(d, invj, flipij) ==
  LET d2 == Loop1(d, Len(d)-1, <<NO,NO>>, invj, IF flipij THEN PatternFlipped ELSE Pattern)
      r == Loop2(d2, Len(d)-1, <<NO,NO>>, <<0,0>>)
  IN [k |-> d2[1], off |-> KJtoIJ(r[1]), fl |-> r[2]]
Complement(d) == [i \in 1..Len(d) |-> 3 - d[i]]
IsRev(o) == o \in {"vu","wu","vw"}
IsInvJ(o) == o \in {"wv","vw"}
IsFlipIJ(o) == o \in {"wu","uw"}
SToAnchor(d, o) ==
  LET a0 == SToAnchorInner(IF IsRev(o) THEN Complement(d) ELSE d, IsInvJ(o), IsFlipIJ(o))
      a1 == IF IsFlipIJ(o) THEN
              LET sw == <<a0.off[2], a0.off[1]>>
                  s1 == IF a0.fl[1] = YES THEN <<sw[1] - 1, sw[2] + 1>> ELSE sw
                  s2 == IF a0.fl[2] = YES THEN <<s1[1] + 1, s1[2] - 1>> ELSE s1
              IN [a0 EXCEPT !.off = s2] ELSE a0
      a2 == IF IsInvJ(o) THEN [a1 EXCEPT !.off = <<a1.off[1], 2^Len(d) - (a1.off[1] + a1.off[2])>>, !.fl = <<-a1.fl[1], a1.fl[2]>>] ELSE a1
  IN a2

\* floor-form numbers <<n, f>> = n + f/D, 0 <= f < D
NormF(n, f) == <<n + (f \div D), f % D>>
AddF(x, y) == NormF(x[1] + y[1], x[2] + y[2])
NegF(x) == IF x[2] = 0 THEN <<-x[1], 0>> ELSE <<-x[1] - 1, D - x[2]>>
IntF(n) == <<n, 0>>
SubF(x, y) == AddF(x, NegF(y))
LtInt(x, c) == x[1] < c
GtInt(x, c) == x[1] > c \/ (x[1] = c /\ x[2] > 0)
\* pentagon centre offsets relative to anchor.off, in 1/D lattice units, by (flips, k)  [geometry of tiling.py]
A1 == 5159
A2 == 1487
Delta(fl, k) ==
  CASE fl = <<YES,YES>> -> IF k < 2 THEN <<-A1, -A2>> ELSE <<-A2, -A1>>
    [] fl = <<NO,NO>>   -> IF k < 2 THEN <<A1, A2>> ELSE <<A2, A1>>
    [] fl = <<YES,NO>>  -> IF k \in {0,3} THEN <<A2, -(D - A1)>> ELSE <<A1, -(D - A2)>>
    [] fl = <<NO,YES>>  -> IF k \in {0,3} THEN <<-A2, D - A1>> ELSE <<-A1, D - A2>>
Centre(a) == LET dl == Delta(a.fl, a.k) IN << NormF(a.off[1], dl[1]), NormF(a.off[2], dl[2]) >>

\* ij_to_quaternary / _ij_to_s / ij_to_s
IJToQ(u, v, fl, sc) ==
  LET a == IF fl[1] = YES THEN NegF(AddF(u, v)) ELSE AddF(u, v)
      b == IF fl[2] = YES THEN NegF(u) ELSE u
      c == IF fl[1] = YES THEN NegF(v) ELSE v
  IN IF fl[1] + fl[2] = 0
     THEN IF LtInt(c, sc) THEN 0 ELSE IF GtInt(b, sc) THEN 3 ELSE IF GtInt(a, sc) THEN 2 ELSE 1
     ELSE IF LtInt(a, sc) THEN 0 ELSE IF GtInt(b, sc) THEN 3 ELSE IF GtInt(c, sc) THEN 2 ELSE 1
RECURSIVE Dec1(_, _, _, _, _)
Dec1(p, i, fl, piv, acc) == IF i < 0 THEN <<acc, fl>> ELSE
  LET sc == 2^i
      u == SubF(p[1], IntF(piv[1])) v == SubF(p[2], IntF(piv[2]))
      q == IJToQ(u, v, fl, sc)
      co == KJtoIJ(QToKJ(q, fl))
  IN Dec1(p, i-1, Mul(fl, QFlips(q)), <<piv[1] + co[1]*sc, piv[2] + co[2]*sc>>, <<q>> \o acc)
RECURSIVE Dec2(_, _, _, _, _)
Dec2(d, i, fl, invj, pat) == IF i >= Len(d) THEN d ELSE
  LET nf == Mul(fl, QFlips(d[i+1])) IN Dec2(Shift(d, i, nf, invj, pat), i+1, nf, invj, pat)
IJToS(p, h, o) ==
  LET p1 == IF IsFlipIJ(o) THEN <<p[2], p[1]>> ELSE p
      p2 == IF IsInvJ(o) THEN <<p1[1], SubF(IntF(2^h), AddF(p1[1], p1[2]))>> ELSE p1
      r == Dec1(p2, h-1, <<NO,NO>>, <<0,0>>, <<>>)
      dd == Dec2(r[1], 0, r[2], IsInvJ(o), IF IsFlipIJ(o) THEN Rev(PatternFlipped) ELSE Rev(Pattern))
  IN IF IsRev(o) THEN Complement(dd) ELSE dd

\* ---- geometry of the lattice used by the laws ----
\* the unit triangle of the triangular lattice that holds a point: <<floor i, floor j, upper?>>
UnitTri(p) == <<p[1][1], p[2][1], IF p[1][2] + p[2][2] > D THEN 1 ELSE 0>>
\* strictly inside the segment triangle i > 0, j > 0, i + j < 2^h
Inside(p, h) == /\ GtInt(p[1], 0) /\ GtInt(p[2], 0)
                /\ LET s == AddF(p[1], p[2]) IN s[1] < 2^h
\* ---- the cell's pentagon in the lattice: vertices as floor-form pairs ----
\* local coordinates (thousandths of a lattice unit) relative to the integer part of the centre
LocalK(x, base) == (x[1] - base) * 1000 + (x[2] \div 10)
RECURSIVE SumTo(_, _)
SumTo(f, n) == IF n = 0 THEN 0 ELSE f[n] + SumTo(f, n - 1)
\* twice the signed area of the pentagon, in millionths of the lattice parallelogram (every A5 pentagon measures
\* exactly half a parallelogram, i.e. 1,000,000 here, and is counter-clockwise in (i, j))
TwiceArea(pv, c) == LET L == [k \in 1..Len(pv) |-> <<LocalK(pv[k][1], c[1][1]), LocalK(pv[k][2], c[2][1])>>]
                        n == Len(pv)
                        T == [k \in 1..n |-> L[k][1] * L[(k % n) + 1][2] - L[(k % n) + 1][1] * L[k][2]]
                    IN SumTo(T, n)
NearCentre(pv, c) == \A k \in 1..Len(pv) : pv[k][1][1] - c[1][1] \in -3..3 /\ pv[k][2][1] - c[2][1] \in -3..3
HalfParallelogram(pv, c) == NearCentre(pv, c) /\ TwiceArea(pv, c) >= 990000 /\ TwiceArea(pv, c) <= 1010000
\* every vertex lies in the closed segment triangle (tolerance 5e-4 lattice units)
VertexWithin(x, y, h) == LET sxy == AddF(x, y) IN
     /\ (x[1] >= 0 \/ (x[1] = -1 /\ x[2] >= D - 5))
     /\ (y[1] >= 0 \/ (y[1] = -1 /\ y[2] >= D - 5))
     /\ (sxy[1] < 2^h \/ (sxy[1] = 2^h /\ sxy[2] <= 5))
PentagonWithin(pv, h) == \A k \in 1..Len(pv) : VertexWithin(pv[k][1], pv[k][2], h)

\* squared distance (in units of 1/1000 lattice unit, halved) between child centre / 2 and parent centre
\* |di e_i + dj e_j|^2 = di^2 + dj^2 + 2 cos(72) di dj,  2 cos 72 = 0.618
Milli(x) == x[1] * 1000 + (x[2] \div 10)           \* floor-form -> thousandths (needs |x| < 2^21)
QForm(di, dj) == 500 * (di * di + dj * dj) + 309 * di * dj
\* child c at level h (child units) and parent q at level h-1 (parent units); compare in parent units
\* using the fractional offsets only: both are within one unit of 2 * (integer part) relations, so
\* subtract integer parts exactly first
HalfDelta(cx, qx) == \* (cx / 2 - qx) in thousandths, exact on the integer parts
   LET n == cx[1] - 2 * qx[1] IN (n * 1000 + (cx[2] \div 10)) \div 2 - (qx[2] \div 10)
Bounded(cx, qx) == LET n == cx[1] - 2 * qx[1] IN n >= -4 /\ n <= 4
CloseQ(c, q) == LET di == HalfDelta(c[1], q[1]) dj == HalfDelta(c[2], q[2]) IN
                /\ di \in -1000..1000 /\ dj \in -1000..1000
                /\ QForm(di, dj) <= 500 * 460 * 460
\* Bounded guards the arithmetic of CloseQ against overflow on wild inputs
PrefixClose(c, q) == Bounded(c[1], q[1]) /\ Bounded(c[2], q[2]) /\ CloseQ(c, q)
=============================================================================
