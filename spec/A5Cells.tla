------------------------------- MODULE A5Cells -------------------------------
(* The A5 cell hierarchy as an abstract tree - by construction, with no arithmetic on ids.

   A cell is a record [r, f, s, d]:
     r  resolution, -1 (the world) .. MaxRes
     f  face 0..NF-1            (meaningful for r >= 0)
     s  segment 0..NS-1         (meaningful for r >= 1)
     d  quaternary digit string, most significant first, Len(d) = r - 1 for r >= 2
        (the Hilbert position S written in base 4; S itself never appears as a number,
         4^28 does not fit TLC's integers).
   Fan-out: world -> NF faces -> NS segments -> 4 -> 4 -> ...
   Every hierarchy, compaction and counting property of the library is a statement about
   this tree; the bit layout of ids (A5Layout) is a separate concern. *)
EXTENDS Integers, Sequences, FiniteSets, A5Params

World == [r |-> -1, f |-> 0, s |-> 0, d |-> <<>>]
Face(f) == [r |-> 0, f |-> f, s |-> 0, d |-> <<>>]
Seg(f, s) == [r |-> 1, f |-> f, s |-> s, d |-> <<>>]
Cell(f, s, d) == [r |-> Len(d) + 1, f |-> f, s |-> s, d |-> d]

IsCell(c) ==
  /\ c.r \in -1..MaxRes
  /\ c.f \in 0..NF-1 /\ c.s \in 0..NS-1
  /\ (c.r < 0 => c.f = 0) /\ (c.r < 1 => c.s = 0)
  /\ Len(c.d) = (IF c.r >= 2 THEN c.r - 1 ELSE 0)
  /\ \A i \in 1..Len(c.d) : c.d[i] \in 0..3

Front(d) == SubSeq(d, 1, Len(d) - 1)

Parent1(c) == CASE c.r = 0 -> World
                [] c.r = 1 -> Face(c.f)
                [] c.r = 2 -> Seg(c.f, c.s)
                [] OTHER   -> [c EXCEPT !.r = @ - 1, !.d = Front(@)]

Children1(c) == CASE c.r = -1 -> { Face(f) : f \in 0..NF-1 }
                  [] c.r = 0  -> { Seg(c.f, s) : s \in 0..NS-1 }
                  [] OTHER    -> { [c EXCEPT !.r = @ + 1, !.d = Append(@, q)] : q \in 0..3 }

Fanout(r) == IF r = -1 THEN NF ELSE IF r = 0 THEN NS ELSE 4

\* the unique ancestor of c at resolution a (a <= c.r)
Anc(c, a) == CASE a = -1 -> World
               [] a = 0  -> Face(c.f)
               [] a = 1  -> Seg(c.f, c.s)
               [] OTHER  -> [r |-> a, f |-> c.f, s |-> c.s, d |-> SubSeq(c.d, 1, a - 1)]

IsAncOrSelf(a, c) == a.r <= c.r /\ Anc(c, a.r) = a
StrictAnc(a, c) == a.r < c.r /\ Anc(c, a.r) = a
Comparable(a, c) == IsAncOrSelf(a, c) \/ IsAncOrSelf(c, a)

RECURSIVE Desc(_, _)
\* all descendants of c at resolution b (b >= c.r); {c} when b = c.r
Desc(c, b) == IF b = c.r THEN {c}
              ELSE UNION { Desc(k, b) : k \in Children1(c) }

RECURSIVE Pow4(_)
Pow4(n) == IF n = 0 THEN 1 ELSE 4 * Pow4(n - 1)

\* closed forms (valid while they fit 31 bits, i.e. r <= 13)
NumCellsSmall(r) == IF r < 0 THEN 0 ELSE IF r = 0 THEN NF ELSE NF * NS * Pow4(r - 1)
NumChildrenSmall(a, b) ==
  IF b < a THEN 0 ELSE IF b = a THEN 1
  ELSE IF a >= 1 THEN Pow4(b - a)
  ELSE IF a = 0 THEN NS * Pow4(b - 1)
  ELSE NumCellsSmall(b)

(* Counts beyond 2^31 are carried as <<m, e>> meaning m * 4^e with 4 not dividing m. *)
NormME(m, e) == IF m = 0 THEN <<0, 0>> ELSE
                LET RECURSIVE N(_, _)
                    N(mm, ee) == IF mm % 4 = 0 THEN N(mm \div 4, ee + 1) ELSE <<mm, ee>>
                IN N(m, e)
NumCellsME(r) == IF r < 0 THEN <<0, 0>> ELSE IF r = 0 THEN NormME(NF, 0) ELSE NormME(NF * NS, r - 1)
NumChildrenME(a, b) ==
  IF b < a THEN <<0, 0>> ELSE IF b = a THEN <<1, 0>>
  ELSE IF a >= 1 THEN <<1, b - a>>
  ELSE IF a = 0 THEN NormME(NS, b - 1)
  ELSE NumCellsME(b)
MulME(x, y) == NormME(x[1] * y[1], x[2] + y[2])

-----------------------------------------------------------------------------
(* Compaction reference.  A set X of cells covers the finest-level cells below its members.
   Norm drops members that have a strict ancestor in X; Canon merges complete sibling
   groups until none is left.  Two sets cover the same region iff Canon(Norm(.)) agree
   (lemma CoverLemma, model-checked on bounded instances in A5Session). *)
Norm(X) == { c \in X : ~ \E a \in X : StrictAnc(a, c) }
Sibs(c) == Children1(Parent1(c))
RECURSIVE Canon(_)
Canon(X) == LET m == { c \in X : c.r >= 0 /\ Sibs(c) \subseteq X }
            IN IF m = {} THEN X
               ELSE LET c == CHOOSE x \in m : TRUE IN Canon((X \ Sibs(c)) \cup {Parent1(c)})
CanonCover(X) == Canon(Norm(X))
IsAntichain(X) == \A a, c \in X : a # c => ~Comparable(a, c)
NoCompleteGroup(X) == \A c \in X : c.r >= 0 => ~(Sibs(c) \subseteq X)
Cover(X, t) == UNION { Desc(c, t) : c \in X }     \* needs t >= every c.r
=============================================================================
