------------------------------- MODULE MC_Hilbert -------------------------------
(* The digit machine: state (o, d); AppendDigit adds a most-significant... no: adds a LEAST
   significant digit, i.e. descends to a child cell (d' = <<q>> \o d in LSB-first form).
   Invariants are the clauses of C18 at design level; the state dump (with the expected anchor
   and centre) is replayed on the real s_to_anchor / get_pentagon_vertices / ij_to_s. *)
EXTENDS A5Hilbert, TLC
CONSTANTS MaxLevel
VARIABLES d, o
vars == <<d, o>>
Init == d = <<>> /\ o \in Orients
AppendDigit == Len(d) < MaxLevel /\ \E q \in 0..3 : d' = <<q>> \o d /\ o' = o
Spec == Init /\ [][AppendDigit]_vars

H == Len(d)
RoundTrip == H > 0 => IJToS(Centre(SToAnchor(d, o)), H, o) = d
InsideTriangle == H > 0 => Inside(Centre(SToAnchor(d, o)), H)
\* the child's centre is within 0.46 parent-lattice units of the parent's centre
PrefixNear == H > 1 => PrefixClose(Centre(SToAnchor(d, o)), Centre(SToAnchor(Tail(d), o)))
\* shifting then un-shifting with the reversed pattern is the identity (digit level, both patterns)
ShiftInverse == H > 1 => \A i \in 1..H-1 : \A fx \in {NO, YES}, fy \in {NO, YES}, invj \in BOOLEAN, pat \in {Pattern, PatternFlipped} :
                   Shift(Shift(d, i, <<fx, fy>>, invj, pat), i, <<fx, fy>>, invj, Rev(pat)) = d
                   \/ ~(LET pk == IF i < H THEN d[i+1] ELSE 0 IN TRUE)
\* all cells of one level sit in pairwise distinct unit triangles (checked per level by the harness over the
\* dumped states; here: siblings are pairwise distinct and distinct from their cousins via the parent law)
SiblingsDistinct == H > 0 => \A q \in 0..3 : q # d[1] =>
                      UnitTri(Centre(SToAnchor(<<q>> \o Tail(d), o))) # UnitTri(Centre(SToAnchor(d, o)))
=============================================================================
