------------------------------- MODULE MC_Hex -------------------------------
(* Generator of the 64-bit values C19 quantifies over: a 16-bit counter placed in one of the
   four 16-bit lanes, the other lanes all zeros or all ones; single-bit and boundary values.
   Design-level laws of the text form are checked on every generated value. *)
EXTENDS A5Layout, TLC
CONSTANTS Stride
VARIABLES lane, fill, v
vars == <<lane, fill, v>>

Lane16(x) == <<(x \div 4096) % 16, (x \div 256) % 16, (x \div 16) % 16, x % 16>>
Value == LET F == <<fill, fill, fill, fill>> IN
         [i \in 1..16 |-> IF (i - 1) \div 4 = lane THEN Lane16(v)[((i - 1) % 4) + 1] ELSE fill]

Init == lane \in 0..3 /\ fill \in {0, 15} /\ v = 0
Next == v + Stride <= 65535 /\ v' = v + Stride /\ UNCHANGED <<lane, fill>>
Spec == Init /\ [][Next]_vars

RoundTrip == FromHex(ToHex(Value)) = Value
Canonical == LET t == ToHex(Value) IN
             /\ Len(t) \in 1..16 /\ (Len(t) > 1 => t[1] # 48)
             /\ \A i \in 1..Len(t) : t[i] \in (48..57) \cup (97..102)
UpperOK == LET t == ToHex(Value) IN
           FromHex([i \in 1..Len(t) |-> IF t[i] >= 97 THEN t[i] - 32 ELSE t[i]]) = Value
PaddedOK == FromHex(<<48, 48, 48, 48>> \o [i \in 1..16 |-> HexChar(Value[i])]) = Value
=============================================================================
