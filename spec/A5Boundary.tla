------------------------------- MODULE A5Boundary -------------------------------
(* The ring assembly pipeline of cell_to_boundary as a label-level machine:
     Defaults -> Corners -> Split -> Unproject -> Normalise -> Close? -> Reverse
   Only the shape of the ring is modelled (the geometry is the environment's): the ring is a
   sequence of vertex names <<corner index, step>>; the model yields, for every configuration
   (resolution, closed_ring option, segments option), the expected length, closure and the
   positions of the corner points. *)
EXTENDS Integers, Sequences, FiniteSets, A5Params
\* option encodings used in traces: closed 1 / 0 / -1 (omitted); segs n >= 1 / 0 ('auto') / -1 (None) / -2 (omitted)
NV(r) == IF r = 1 THEN 3 ELSE 5
RECURSIVE Pow2(_)
Pow2(n) == IF n = 0 THEN 1 ELSE 2 * Pow2(n - 1)
AutoSegments(r) == IF r >= 6 THEN 1 ELSE Pow2(6 - r)        \* max(1, 2^(6 - r)) of today's code
IsClosed(closed) == closed # 0
Segments(r, segs) == IF segs >= 1 THEN segs ELSE AutoSegments(r)

VARIABLES pc, r, closed, segs, ring
vars == <<pc, r, closed, segs, ring>>
Init == /\ pc = "Defaults" /\ ring = <<>>
        /\ r \in 0..MaxRes-1 /\ closed \in {1, 0, -1} /\ segs \in {-2, -1, 0, 1, 2, 3, 7, 16}
Corners == pc = "Defaults" /\ pc' = "Split"
           /\ ring' = [i \in 1..NV(r) |-> <<i, 0>>] /\ UNCHANGED <<r, closed, segs>>
Split == pc = "Split" /\ pc' = "Close"
         /\ LET s == Segments(r, segs) IN
            ring' = [j \in 1..NV(r) * s |-> <<((j - 1) \div s) + 1, (j - 1) % s>>]
         /\ UNCHANGED <<r, closed, segs>>
Close == pc = "Close" /\ pc' = "Reverse"
         /\ ring' = (IF IsClosed(closed) THEN Append(ring, ring[1]) ELSE ring)
         /\ UNCHANGED <<r, closed, segs>>
Reverse == pc = "Reverse" /\ pc' = "Done"
           /\ ring' = [i \in 1..Len(ring) |-> ring[Len(ring) + 1 - i]]
           /\ UNCHANGED <<r, closed, segs>>
Next == Corners \/ Split \/ Close \/ Reverse
Spec == Init /\ [][Next]_vars

\* ---- shape laws of the finished ring (what Trace_Geo demands of the real rings) ----
Done == pc = "Done"
ExpectedLen(rr, cl, sg) == NV(rr) * Segments(rr, sg) + (IF IsClosed(cl) THEN 1 ELSE 0)
LenLaw == Done => Len(ring) = ExpectedLen(r, closed, segs)
ClosureLaw == Done => ((ring[1] = ring[Len(ring)]) <=> IsClosed(closed))
CornerLaw == Done => LET s == Segments(r, segs)
                         open == IF IsClosed(closed) THEN SubSeq(ring, 1, Len(ring) - 1) ELSE ring
                         cs == { i \in 1..Len(open) : open[i][2] = 0 } IN
                     /\ Cardinality(cs) = NV(r)
                     /\ \A i, j \in cs : (i - j) % s = 0
NoRepeatLaw == Done => LET open == IF IsClosed(closed) THEN SubSeq(ring, 1, Len(ring) - 1) ELSE ring IN
                       Cardinality({ open[i] : i \in 1..Len(open) }) = Len(open)
=============================================================================
