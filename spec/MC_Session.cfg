SPECIFICATION Spec
CONSTANTS MaxLen = 40
          MaxR = 5
          MaxSteps = 12
INVARIANT TypeOK
INVARIANT CompactLaw
INVARIANT UncompactLaw
CHECK_DEADLOCK FALSE
