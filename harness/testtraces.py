"""Trace validation of the repository's own test suite: run selected test files with the hooks on,
collect the hook events per test, and hand them to the trace specifications."""
import json, os, subprocess, sys
from . import core, calls


def record(d, files, timeout=900):
    tap = os.path.join(d, "tap.ndjson")
    if os.path.exists(tap):
        os.remove(tap)
    env = dict(os.environ)
    env.update({"A5_PY_VERIF": "1", "A5_TAP_FILE": tap, "PYTHONPATH": core.VERIF + os.pathsep + core.REPO, "PYTHONDONTWRITEBYTECODE": "1"})
    cmd = [sys.executable, "-m", "pytest", "-q", "-p", "no:cacheprovider", "-p", "harness.pytest_tap", "-x", "--timeout=600"] + files
    p = subprocess.run(["timeout", str(timeout)] + cmd, cwd=core.REPO, env=env, capture_output=True, text=True)
    summary = (p.stdout.strip().splitlines() or [""])[-1]
    evs = []
    if os.path.exists(tap):
        for l in open(tap):
            evs.append(json.loads(l))
    return summary, evs


def compact_events(evs):
    """synthesise Trace_Compact events from the pass hooks: input = list after sort/dedup, passes, result = last pass"""
    out = []
    cur = None
    for x in evs:
        e = x["e"]
        if e.get("ev") == "compact.start":
            cur = {"ev": "compact", "test": x["test"], "input": [core.nibs(c) for c in e["cells"]], "ok": True, "exc": "", "passes": [[core.nibs(c) for c in e["cells"]]],
                   "ret": [], "again": [], "model": [], "argsame": True}
            out.append(cur)
        elif e.get("ev") == "compact.pass" and cur is not None:
            cur["passes"].append([core.nibs(c) for c in e["cells"]])
            cur["ret"] = cur["passes"][-1]
            cur["again"] = cur["ret"]          # idempotence is not observable from the hooks; judged elsewhere
    return [c for c in out if c["ret"] or c["passes"]]


def cache_trace(evs):
    """Trace_Pure lines from the cache hooks of one pytest process (one history)"""
    from . import c17
    out = [{"ev": "reset"}]
    out += c17.cache_events([x["e"] for x in evs], strict=False)     # tests build several projection instances
    return out
