"""Multi-step binding: TLC simulates behaviours of the client session A5Session; every behaviour is
stepped through the real API and the abstract state is compared after each action."""
import glob, os, re
from . import core, params, cells


def behaviours(d, num, depth, seed, timeout=900):
    sim = os.path.join(d, "sim")
    os.makedirs(sim, exist_ok=True)
    for f in glob.glob(sim + "/tr*"):
        os.remove(f)
    cfg = "SPECIFICATION Spec\nCONSTANTS MaxLen = 40\n MaxR = 5\n MaxSteps = %d\nINVARIANT TypeOK\nINVARIANT CompactLaw\nINVARIANT UncompactLaw\nCHECK_DEADLOCK FALSE\n" % (depth - 1)
    open(os.path.join(d, "MC_Session.cfg"), "w").write(cfg)
    res = core.run_tlc(d, "A5Session", cfg="MC_Session.cfg", timeout=timeout, workers=1,
                       simulate="file=%s/tr,num=%d" % (sim, num), args=["-depth", str(depth), "-seed", str(seed + 1)])
    out = []
    for f in sorted(glob.glob(sim + "/tr*")):
        txt = open(f).read()
        states = []
        for blk in re.split(r"\nSTATE_\d+ == \n", txt)[1:]:
            blk = blk.split("\n\n\n")[0].split("====")[0]
            st = {}
            for part in re.split(r"(?:^|\n)/\\ ", blk):
                part = part.strip()
                if part:
                    name, _, val = part.partition(" =")
                    st[name.strip()] = core.parse_tla(val)
            states.append(st)
        out.append(states)
    return res, out


def key(c):
    return (c["r"], c["f"], c["s"], tuple(c["d"]))


def project(ids):
    ser, org, utils = cells.api()
    out = []
    for i in ids:
        a = cells.abstract(ser.deserialize(i))
        if a["r"] == -1:
            a = {"r": -1, "f": 0, "s": 0, "d": [], "ok": True}
        out.append(a)
    return out


def replay(states, stats):
    """returns None or (step index, op, what) for the first step whose real result differs from the spec's"""
    params.import_a5()
    import a5
    real = []
    handed = []
    for n in range(1, len(states)):
        op, want = states[n]["op"], states[n]["ws"]
        name, i, x = op["name"], op["i"], op["x"]
        stats[name] = stats.get(name, 0) + 1
        try:
            if name == "seed":
                c = want[0]
                new = [0 if c["r"] == -1 else cells.real_id(c)]
            elif name == "refine":
                kids = a5.cell_to_children(real[i - 1]); handed.append(kids)
                new = real[:i - 1] + list(kids) + real[i:]
            elif name == "refineto":
                kids = a5.cell_to_children(real[i - 1], x); handed.append(kids)
                new = real[:i - 1] + list(kids) + real[i:]
            elif name == "coarsen":
                new = real[:i - 1] + [a5.cell_to_parent(real[i - 1], x)] + real[i:]
            elif name == "dup":
                new = real + [real[i - 1]]
            elif name == "drop":
                new = real[:i - 1] + real[i:]
            elif name == "rotate":
                new = real[1:] + real[:1]
            elif name == "compact":
                arg = list(real)
                new = a5.compact(arg); handed.append(new)
                if arg != real:
                    return (n, op, "compact modified its argument")
                new = list(new)
            elif name == "uncompact":
                arg = list(real)
                new = a5.uncompact(arg, x); handed.append(new)
                if arg != real:
                    return (n, op, "uncompact modified its argument")
                new = list(new)
            elif name == "uncompactbad":
                try:
                    got = a5.uncompact(list(real), x)
                    return (n, op, "uncompact returned %d cells although a member is finer than the target" % len(got))
                except ValueError:
                    new = list(real)
            else:
                raise core.MachineryError("unknown session op " + name)
        except core.MachineryError:
            raise
        except Exception as ex:
            return (n, op, "raised %s: %s" % (type(ex).__name__, str(ex)[:60]))
        try:
            got = project(new)
        except Exception as ex:
            return (n, op, "result holds an id that cannot be decoded: %s" % type(ex).__name__)
        if sorted(key(c) for c in got) != sorted(key(c) for c in want):
            return (n, op, "state differs: real %d cells, spec %d cells; first real not in spec: %r" % (
                len(got), len(want), next((key(c) for c in got if key(c) not in {key(w) for w in want}), None)))
        # continue in the spec's order (the API's order inside a block is its own business)
        pool = {}
        for c, i_ in zip(got, new):
            pool.setdefault(key(c), []).append(i_)
        real = [pool[key(w)].pop() for w in want]
        for lst in handed:
            if isinstance(lst, list):
                lst.reverse(); lst.append(0x1234567)
        handed = []
    return None


def run(d, v, quick, mine, clause, seed):
    num, depth = (80, 11) if quick else (1500, 14)
    res, behs = behaviours(d, num, depth, seed)
    core.require_clean(res, "A5Session simulate")
    v.tlc_runs.append({"config": "A5Session -simulate", "behaviours": len(behs), "depth": depth, "wall_s": round(res.wall, 1),
                       "constants": {"MaxLen": 40, "MaxR": 5}})
    stats = {}
    nbad = 0
    for b in behs:
        r = replay(b, stats)
        if r is not None:
            n, op, what = r
            if op["name"] in mine:
                hist = [s["op"] for s in b[1:n + 1]]
                v.violation(clause, {"step": n, "op": op, "what": what, "history": hist},
                            {"check": clause[:3], "session": [{"op": s["op"], "ws": s["ws"]} for s in b[:n + 1]]}, {"clause": clause})
                nbad += 1
            else:
                v.drift.append({"what": "session step of another property's operation differs (reported by that property's check)", "op": op, "detail": what})
    v.traces += len(behs)
    v.states += sum(len(b) for b in behs)
    v.transitions += sum(len(b) - 1 for b in behs)
    v.cov["session_behaviours_replayed"] = len(behs)
    v.cov["session_actions"] = stats
    if behs:
        v.sample({"session": [s["op"] for s in behs[0][1:8]]})
    return nbad


def replay_file(v, obj, clause):
    states = [{"op": {"name": "init", "i": 0, "x": 0}, "ws": []}] + [s for s in obj["session"] if s["op"]["name"] != "init"]
    r = replay(states, {})
    v.traces += 1
    v.states = v.transitions = max(1, len(states))
    v.sample({"steps": len(states)})
    if r is not None:
        v.violation(clause, {"step": r[0], "op": r[1], "what": r[2]}, obj, {"clause": clause})
    return "replay of one session"
