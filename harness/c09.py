"""C09 - compact output is the unique minimal duplicate-free representation (antichain inputs)."""
from . import c08


def run(v):
    return c08.run(v, prefixes=("C09",), pid="C09")


def replay(v, obj):
    return c08.replay(v, obj, prefixes=("C09",))
