"""Shared by C08 / C09: MC_Compact universes, replay on the real compact() with hook events,
random deep inputs, Trace_Compact judging."""
import random
from . import core, params, cells

UNIVERSES = {
    "U1": dict(SegFaces="{0}", Refinable="{<<0,0>>, <<0,1>>}", Deep="{}", BlockFaces="{2,3,4,5,6,7,8,9,10}"),
    "U2": dict(SegFaces="{6}", Refinable="{<<6,0>>, <<6,3>>}", Deep="{}", BlockFaces="{0,1,2,3,4,8,9,10,11}"),
    "U3": dict(SegFaces="{0}", Refinable="{<<0,1>>}", Deep="{<<0,1,2>>}", BlockFaces="{2,3,4,5,6,7,8,9,10}"),
    "U4": dict(SegFaces="{0, 11}", Refinable="{<<0,1>>, <<11,0>>}", Deep="{}", BlockFaces="{2,3,4,5,6,7,8,9,10}"),
    "U5": dict(SegFaces="{1, 9}", Refinable="{<<1,4>>, <<9,2>>}", Deep="{}", BlockFaces="{0,2,3,4,5,6,7,11}"),
}
INVS = ("AlgIsCanon", "AlgNoDup", "AlgNoGroup", "AlgCover", "AlgShrinks", "AlgSorted")


def run_universe(d, name, mode="hier", timeout=1500, dump=True):
    u = UNIVERSES[name]
    open(d + "/MC_Compact_run.tla", "w").write(
        "---- MODULE MC_Compact_run ----\nEXTENDS MC_Compact\nRefinableDef == %s\nDeepDef == %s\n====\n" % (u["Refinable"], u["Deep"]))
    cfg = "SPECIFICATION Spec\nCONSTANTS SortMode = \"%s\"\n SegFaces = %s\n Refinable <- RefinableDef\n Deep <- DeepDef\n BlockFaces = %s\n" % (mode, u["SegFaces"], u["BlockFaces"])
    cfg += "".join("INVARIANT %s\n" % i for i in INVS) + "CHECK_DEADLOCK FALSE\n"
    cname = "MC_Compact_%s_%s.cfg" % (name, mode)
    open(d + "/" + cname, "w").write(cfg)
    args = ["-dump", d + "/compact_" + name] if dump else []
    res = core.run_tlc(d, "MC_Compact_run", cfg=cname, timeout=timeout, args=args + ["-coverage", "1"])
    return res


def compact_event(ids, model=None, prelude=None):
    """call the real compact (hooks on), then compact its result again"""
    params.import_a5()
    import a5
    from a5 import _verif
    arg = list(ids)
    e = {"ev": "compact", "input": [core.nibs(x) for x in ids], "ok": False, "exc": "", "ret": [], "again": [],
         "passes": [], "model": model or [], "argsame": True}
    if prelude or (prelude is None and len(ids) % 5 == 0):
        # the client looks at the face list / some children first and edits what it was given
        try:
            fl = a5.get_res0_cells()
            if isinstance(fl, list) and fl:
                fl.remove(fl[len(ids) % len(fl)])
            if ids and ids[0]:
                kl = a5.cell_to_children(a5.cell_to_parent(ids[0]))
                if isinstance(kl, list) and kl:
                    kl.pop()
        except Exception:
            pass
    _verif.drain()
    try:
        ret = a5.compact(arg)
    except Exception as ex:
        e["exc"] = type(ex).__name__ + ": " + str(ex)[:80]
        return e
    evs = _verif.drain()
    e["argsame"] = arg == list(ids)
    if not (isinstance(ret, list) and all(isinstance(x, int) and 0 <= x < 2 ** 64 for x in ret)):
        e["exc"] = "not a list of 64-bit ints"
        return e
    e["ok"] = True
    e["ret"] = [core.nibs(x) for x in ret]
    ps = [h["cells"] for h in evs if h.get("ev") in ("compact.start", "compact.pass")]
    e["passes"] = [[core.nibs(x) for x in p] for p in ps]
    try:
        again = a5.compact(list(ret))
        e["again"] = [core.nibs(x) for x in again]
    except Exception as ex:
        e["again"] = [[99]]
        e["exc"] = "second compact: " + type(ex).__name__
    return e


def permuted(ids, rng, dup=True):
    out = list(ids)
    mode = rng.randrange(6)
    if mode == 0:
        return sorted(set(out))                    # strictly ascending, no duplicates (a "pre-sorted" caller)
    if mode == 1:
        return sorted(set(out), reverse=True)
    rng.shuffle(out)
    if dup and out:
        for _ in range(rng.randrange(0, 3)):
            out.insert(rng.randrange(len(out) + 1), rng.choice(out))
    return out


def states_of(d, name, phases):
    sts = core.parse_dump(d + "/compact_" + name + ".dump")
    return [s for s in sts if s["phase"] in phases]


def model_passes(st):
    return [[core.nibs(x << 42) for x in p] for p in st["alg"]]


def random_antichain(p, rng, size, maxres=29):
    """random refinement of the world: every sibling group starts complete; then a few members are
    dropped so that some groups are incomplete"""
    ser, org, utils = cells.api()
    cur = [0]
    while len(cur) < size:
        i = rng.randrange(len(cur))
        c = cur[i]
        r = ser.get_resolution(c)
        if r >= maxres:
            if rng.random() < 0.2:
                break
            continue
        cur[i:i + 1] = ser.cell_to_children(c)
    mode = rng.randrange(4)
    if mode == 0:
        pass                                           # complete partition: canonical form is the world
    elif mode == 1:
        cur = [c for c in cur if rng.random() < 0.9]
    elif mode == 2:
        k = rng.randrange(len(cur))
        cur = cur[:k] + cur[k + 1:]                    # exactly one hole
    else:
        f = rng.randrange(12)
        cur = [c for c in cur if cells.abstract(ser.deserialize(c))["f"] != f or ser.get_resolution(c) < 0]
    return cur


def spine_antichain(p, rng, depth):
    """a complete partition of the globe with one spine refined down to `depth`: every level contributes the
    siblings of the spine cell, so compaction has to cascade through every level up to the world cell"""
    ser, org, utils = cells.api()
    out = []
    cur = 0
    while ser.get_resolution(cur) < depth:
        kids = ser.cell_to_children(cur)
        nxt = rng.choice(kids)
        out += [k for k in kids if k != nxt]
        cur = nxt
    out.append(cur)
    return out


def deep_descent(p, rng, maxres=29):
    """one random path to a deep resolution; returns sibling groups along it (near-miss shapes)"""
    ser, org, utils = cells.api()
    r = rng.randrange(2, maxres + 1)
    c = {"r": r - 1, "f": rng.randrange(p["NF"]), "s": rng.randrange(p["NS"]), "d": [rng.randrange(4) for _ in range(max(0, r - 2))]}
    par = cells.real_id(c)
    kids = ser.cell_to_children(par)
    stride = kids[1] - kids[0] if len(kids) > 1 else 0
    nxt = [k + len(kids) * stride for k in kids]       # ids just after the group (children of the next parent, if valid)
    shapes = [kids, kids[1:] + nxt[:1], kids[:-1], kids[1:], kids + nxt[:3], kids[:1] + kids[2:], [kids[0], kids[-1]]]
    out = []
    for sh in shapes:
        ok = []
        for x in sh:
            try:
                if 0 < x < 2 ** 64 and ser.get_resolution(x) == r and ser.serialize(ser.deserialize(x)) == x:
                    ok.append(x)
            except Exception:
                pass
        if ok:
            out.append(ok)
    return out


def stride_runs(p, rng):
    """arithmetic progressions of same-level ids with the stride of a NEIGHBOURING level (and of the
    level itself): equally spaced cells that are not a sibling group must never be merged"""
    ser, org, utils = cells.api()
    r = rng.randrange(1, 29)
    c = {"r": r, "f": rng.randrange(p["NF"]), "s": rng.randrange(p["NS"]), "d": [rng.randrange(4) for _ in range(max(0, r - 2))] + ([0] if r >= 2 else [])}
    first = cells.real_id(c)
    out = []
    for rr in (r - 2, r - 1, r, r + 1):
        if rr < 0 or rr > 29:
            continue
        st = ser.get_stride(rr)
        for n in (4, 5, 12):
            run = []
            for j in range(n):
                x = first + j * st
                try:
                    if 0 < x < 2 ** 64 and ser.get_resolution(x) == r and ser.serialize(ser.deserialize(x)) == x:
                        run.append(x)
                except Exception:
                    pass
            if len(run) >= 3:
                out.append(run)
    return out


def judge_events(d, v, events, prefixes):
    tres, bad = core.judge(d, "Trace_Compact", events, timeout=2400)
    v.add_tlc("Trace_Compact", tres, {"events": len(events)})
    v.traces += len(events)
    for i, clauses in sorted(bad.items()):
        e = events[i]
        if any(c.startswith("wellformed") for c in clauses):
            raise core.MachineryError("malformed compact event")
        mine = [c for c in clauses if c.startswith(prefixes)]
        det = {"input": ["%016x" % core.unnibs(x) for x in e["input"]][:40], "n_input": len(e["input"]),
               "ret": ["%016x" % core.unnibs(x) for x in e["ret"]][:40], "clauses": clauses, "exc": e["exc"]}
        if mine:
            v.violation(mine[0], det, {"check": prefixes[0][:3], "input": ["%016x" % core.unnibs(x) for x in e["input"]]}, {"clause": mine[0]})
        elif any(c.startswith("drift") for c in clauses):
            v.drift.append({"clauses": clauses, "input": det["input"][:12]})
    return bad
