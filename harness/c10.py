"""C10 - uncompact expands each cell to exactly its descendants at the target level."""
import random
from . import core, params, cells, tree, session


def confirm(e):
    """re-judge with the real API only: True if a clause of the property fails"""
    ser, org, utils = cells.api()
    try:
        ids = [core.unnibs(x) for x in e["cells"]]
        t = e["t"]
        rs = [ser.get_resolution(i) for i in ids]
        if not e["argsame"]:
            return True
        if any(r > t for r in rs):
            return e["ok"]
        if t > 29 or t < 0:
            return False
        if not e["ok"]:
            return True
        ret = [core.unnibs(x) for x in e["ret"]]
        pos = 0
        for cid, r in zip(ids, rs):
            n = 1
            for lvl in range(r, t):
                n *= 12 if lvl == -1 else 5 if lvl == 0 else 4
            blk = ret[pos:pos + n]
            pos += n
            if len(blk) != n or len(set(blk)) != n:
                return True
            for x in blk:
                if ser.get_resolution(x) != t or ser.cell_to_parent(x, r) != cid:
                    return True
        return pos != len(ret) or not e["backok"] or e["sum"] != core.me_pair(len(ret))
    except Exception:
        return True


def run(v):
    quick = core.tier() == "quick"
    rng = random.Random(core.seed() + 10)
    d = core.workdir("C10")
    p, states = tree.mc_tree(d, v, quick, want=("uncompact",))
    events = tree.replay_states(states, rng)
    n_b1 = len(events)
    for ids, t in tree.random_deep_lists(p, rng, 600 if quick else 6000):
        events.append(tree.uncompact_event(ids, t, prelude=rng.random() < 0.3))
        if rng.random() < 0.2:
            tree._scribble()
            events.append(tree.uncompact_event(ids, t))
    tres, bad = core.judge(d, "Trace_Tree", events, timeout=2400)
    v.add_tlc("Trace_Tree", tres, {"events": len(events)})
    v.traces += len(events)
    v.cov["requests_from_tlc"] = len(states)
    v.cov["random_deep_lists"] = len(events) - n_b1
    v.cov["raising_requests"] = sum(1 for e in events if not e["ok"])
    for e in events[:2] + events[n_b1:n_b1 + 2]:
        v.sample({"cells": ["%016x" % core.unnibs(x) for x in e["cells"]], "t": e["t"], "ok": e["ok"], "n_ret": len(e["ret"])})
    for i, clauses in sorted(bad.items()):
        e = events[i]
        if any(c.startswith("wellformed") for c in clauses):
            raise core.MachineryError("malformed event %r" % e["cells"])
        det = {"cells": ["%016x" % core.unnibs(x) for x in e["cells"]], "t": e["t"], "clauses": clauses, "exc": e["exc"], "n_ret": len(e["ret"])}
        if confirm(e):
            v.violation(clauses[0], det, {"check": "C10", "cells": det["cells"], "t": e["t"]}, {"clause": clauses[0]})
        else:
            v.drift.append(det)
    session.run(d, v, quick, ("uncompact", "uncompactbad"), "C10.session", core.seed() + 100)
    v.exhaustive = False
    v.assumptions += ["expansion factor bounded (lists of at most 3 cells in the TLC model, target at most 2 levels below the coarsest member; random lists expand by at most 4^5 per cell)"]
    return "TLC (MC_Tree: Build/BuildMore/AskList) enumerates working lists of up to 3 cells (with multiplicity, world cell, ancestors and children together) and every target resolution incl. too-coarse ones; random deep lists to resolution 29 are added; each is replayed on uncompact and judged block-wise by Trace_Tree"


def replay(v, obj):
    if "session" in obj:
        return session.replay_file(v, obj, "C10.session")
    ids = [int(x, 16) for x in obj["cells"]]
    e = tree.uncompact_event(ids, obj["t"], prelude=True)
    d = core.workdir("C10_replay")
    params.stage(d)
    tres, bad = core.judge(d, "Trace_Tree", [e], timeout=300)
    v.add_tlc("Trace_Tree", tres)
    v.traces += 1
    v.sample(obj)
    for i, clauses in bad.items():
        if confirm(e):
            v.violation(clauses[0], {"clauses": clauses}, obj, {"clause": clauses[0]})
    return "replay of one request"
