"""C20 - cell-count and area metadata agree with the actual hierarchy."""
import random
from . import core, params, cells, tree


def build_events(p, quick, rng):
    ser, org, utils = cells.api()
    from a5.core import cell_info
    params.import_a5()
    import a5
    ev = []
    maxres = p["MaxRes"]
    for r in range(-1, maxres + 1):
        ev.append({"ev": "numcells", "r": r, "num": core.me_pair(a5.get_num_cells(r))})
    for a in range(-1, maxres + 1):
        for b in range(-1, maxres + 1):
            ev.append({"ev": "numchildren", "a": a, "b": b, "num": core.me_pair(cell_info.get_num_children(a, b))})
    # expanding the world: distinct count, get_num_cells, and the sum of children counts over every coarser level
    top = 6 if quick else 8
    for r in range(0, top + 1):
        ids = ser.cell_to_children(0, r)
        sums = []
        for a in range(-1, r + 1):
            level = [0] if a == -1 else ser.cell_to_children(0, a)
            sums.append(core.me_pair(sum(cell_info.get_num_children(ser.get_resolution(c), r) for c in level)))
        ev.append({"ev": "expand", "r": r, "total": len(ids), "distinct": len(set(ids)),
                   "num": core.me_pair(a5.get_num_cells(r)), "sums": sums})
        tree._handed.append(ids)
        tree._scribble()
    # the sizing rule against the real length of cell_to_children for every resolution pair
    cap = 4 ** 5 if quick else 4 ** 8
    for a in range(-1, maxres):
        for b in range(a, maxres):
            n = cell_info.get_num_children(a, b)
            exp = 1
            for lvl in range(a, b):
                exp *= 12 if lvl == -1 else 5 if lvl == 0 else 4
            if exp > cap:
                break
            for _ in range(1 if exp > 256 else 2):
                c = {"r": a, "f": rng.randrange(p["NF"]) if a >= 0 else 0, "s": rng.randrange(p["NS"]) if a >= 1 else 0,
                     "d": [rng.randrange(4) for _ in range(max(0, a - 1))]}
                cid = 0 if a < 0 else cells.real_id(c)
                kids = ser.cell_to_children(cid, b)
                ev.append({"ev": "len", "cell": "%016x" % cid, "a": a, "b": b, "len": len(kids), "num": core.me_pair(n)})
                tree._handed.append(kids)
        tree._scribble()
    # the rule that sizes uncompact's output, on lists mixing the world cell, coarse cells and cells already at the target
    for t in range(0, 4 if quick else 6):
        for trial in range(6):
            members = []
            for _ in range(rng.randrange(2, 5)):
                a = rng.choice([-1, t, rng.randrange(-1, t + 1), max(-1, t - 1)])
                c = {"r": a, "f": rng.randrange(p["NF"]) if a >= 0 else 0, "s": rng.randrange(p["NS"]) if a >= 1 else 0,
                     "d": [rng.randrange(4) for _ in range(max(0, a - 1))]}
                members.append(0 if a < 0 else cells.real_id(c))
            want = sum(len(ser.cell_to_children(c, t)) for c in members)
            rule = sum(cell_info.get_num_children(ser.get_resolution(c), t) for c in members)
            try:
                got = a5.uncompact(list(members), t)
                n, zeros = len(got), sum(1 for x in got if x == 0 and t >= 0)
            except Exception:
                n, zeros = -1, 0
            ev.append({"ev": "sizing", "cells": ["%016x" % c for c in members], "t": t, "want": want, "rule": core.me_pair(rule), "got": n, "fillers": zeros})
    # areas as IEEE-754 fields
    total = cell_info.AUTHALIC_AREA
    tb, _ = tree.fbits(total)
    for r in range(-1, maxres + 1):
        ar = a5.cell_area(r)
        fb, okf = tree.fbits(ar) if isinstance(ar, float) else ([0, 0, 0], False)
        e = {"ev": "area", "r": r, "bits": fb, "finite": okf, "less": True, "notless": True, "ulps": 0}
        if r >= 1:
            e["less"] = bool(okf and ar < a5.cell_area(r - 1))
        if r == -1:
            e["notless"] = bool(okf and ar >= a5.cell_area(0))
        if r >= 0:
            prod = ar * a5.get_num_cells(r)
            pb, okp = tree.fbits(prod)
            e["prod"] = pb
            e["total"] = tb
            # ulp distance of the caller-side product from the sphere area, from the IEEE fields
            if okp and pb[0] == tb[0] and abs(pb[1] - tb[1]) <= 1:
                e["ulps"] = (pb[1] - tb[1]) * 2 ** 26 + (pb[2] - tb[2])
            else:
                e["ulps"] = 99999
        ev.append(e)
    return ev


def run(v):
    quick = core.tier() == "quick"
    rng = random.Random(core.seed() + 20)
    d = core.workdir("C20")
    # design level: the closed forms against the enumerated tree (ChildrenLaw / UncompactLaw of MC_Tree)
    p, states = tree.mc_tree(d, v, quick, want=("children",))
    events = build_events(p, quick, rng)
    # len(cell_to_children) against the rule on TLC's own requests as well
    ser, org, utils = cells.api()
    from a5.core import cell_info
    n0 = len(events)
    for st in states:
        b = st["op"]["b"]
        c = st["c"]
        if b == tree.OMIT:
            b = c["r"] + 1
        if b < c["r"] or b > p["MaxRes"] - 1:
            continue
        cid = 0 if c["r"] < 0 else cells.real_id(c)
        kids = ser.cell_to_children(cid, b)
        events.append({"ev": "len", "cell": "%016x" % cid, "a": c["r"], "b": b, "len": len(kids),
                       "num": core.me_pair(cell_info.get_num_children(c["r"], b))})
        tree._handed.append(kids)
        if len(events) % 9 == 0:
            tree._scribble()
    tres, bad = core.judge(d, "Trace_Tree", events, timeout=2400)
    v.add_tlc("Trace_Tree", tres, {"events": len(events)})
    v.traces += len(events)
    v.cov["by_kind"] = {k: sum(1 for e in events if e["ev"] == k) for k in ("numcells", "numchildren", "expand", "len", "area")}
    v.cov["len_requests_from_tlc"] = len(events) - n0
    for e in (events[3], events[40], [x for x in events if x["ev"] == "expand"][2], [x for x in events if x["ev"] == "area"][5]):
        v.sample(e)
    for i, clauses in sorted(bad.items()):
        e = events[i]
        if any(c.startswith("wellformed") for c in clauses):
            raise core.MachineryError("malformed event %r" % e)
        v.violation(clauses[0], {"clauses": clauses, "event": {k: e[k] for k in e if k not in ("sums",)}},
                    {"check": "C20", "event": e}, {"clause": clauses[0]})
    v.exhaustive = True
    v.cov["exhaustive_space"] = "all resolutions -1..MaxRes for get_num_cells/cell_area and all (a, b) pairs in -1..MaxRes for get_num_children are enumerated completely; len(cell_to_children) pairs are bounded by expansion <= 4^%d" % (5 if quick else 8)
    return "all r in -1..30 and all resolution pairs: real get_num_cells/get_num_children/cell_area values (counts as <<m, e>> = m*4^e, floats as IEEE fields) judged by Trace_Tree against the tree's closed forms and the enumerated hierarchy (MC_Tree ChildrenLaw); world expansion to r<=%d counted; len(cell_to_children) against the sizing rule" % (6 if quick else 8)


def replay(v, obj):
    """recompute the metadata events on the current tree and judge the one that was recorded"""
    import random
    d = core.workdir("C20_replay")
    p = params.stage(d)
    want = obj["event"]
    keyf = lambda e: (e["ev"], e.get("r"), e.get("a"), e.get("b"), e.get("cell"), tuple(e.get("cells", [])), e.get("t"))
    evs = [e for e in build_events(p, True, random.Random(core.seed() + 20)) if keyf(e) == keyf(want)]
    if want["ev"] in ("len", "sizing") and not evs:
        # rebuild the observation directly from the recorded arguments
        ser, org, utils = cells.api()
        from a5.core import cell_info
        import a5
        if want["ev"] == "len":
            cid = int(want["cell"], 16)
            kids = ser.cell_to_children(cid, want["b"])
            evs = [dict(want, len=len(kids), num=core.me_pair(cell_info.get_num_children(want["a"], want["b"])))]
        else:
            members = [int(x, 16) for x in want["cells"]]
            t = want["t"]
            try:
                got = a5.uncompact(list(members), t)
                n, zeros = len(got), sum(1 for x in got if x == 0)
            except Exception:
                n, zeros = -1, 0
            evs = [dict(want, want=sum(len(ser.cell_to_children(c, t)) for c in members),
                        rule=core.me_pair(sum(cell_info.get_num_children(ser.get_resolution(c), t) for c in members)), got=n, fillers=zeros)]
    if not evs:
        raise core.MachineryError("recorded event not found among the recomputed ones")
    tres, bad = core.judge(d, "Trace_Tree", evs[:1], timeout=300)
    v.add_tlc("Trace_Tree", tres)
    v.traces += 1
    v.sample(want)
    for i, clauses in bad.items():
        v.violation(clauses[0], {"clauses": clauses, "event": evs[0]}, obj, {"clause": clauses[0]})
    return "replay of one metadata observation"
