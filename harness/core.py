"""Shared machinery: TLC runner, work dirs, evidence, known findings, replay files.

Every check is `./check <id>`; this module holds what all of them need.  Nothing here
knows anything about a5 except where the repository lives.
"""
import json, os, re, shutil, subprocess, sys, time, hashlib

VERIF = os.path.dirname(os.path.dirname(os.path.abspath(__file__)))
REPO = os.environ.get("A5_REPO", "/repo")
SPEC = os.path.join(VERIF, "spec")
WORK = os.path.join(VERIF, ".work")
EVID = os.path.join(VERIF, "evidence")
JAR = "/opt/veriftools/tla/tla2tools.jar"
DEPS = "/opt/veriftools/tla/CommunityModules-deps.jar"
NCPU = os.cpu_count() or 4


def tier():
    t = os.environ.get("VERIF_TIER", "quick")
    return t if t in ("quick", "thorough") else "quick"


def seed():
    try:
        return int(os.environ.get("VERIF_SEED", "0"))
    except ValueError:
        return 0


def workdir(name, clean=True):
    d = os.path.join(WORK, name)
    if clean and os.path.isdir(d):
        shutil.rmtree(d, ignore_errors=True)
    os.makedirs(d, exist_ok=True)
    os.makedirs(os.path.join(d, "tmp"), exist_ok=True)
    return d


def stage_specs(d, extra=None):
    """Copy every module of /verif/spec into the work dir (TLC wants them side by side)."""
    for fn in os.listdir(SPEC):
        if fn.endswith((".tla", ".cfg")):
            shutil.copy(os.path.join(SPEC, fn), os.path.join(d, fn))
    for name, text in (extra or {}).items():
        with open(os.path.join(d, name), "w") as f:
            f.write(text)


class TLCResult:
    def __init__(self, rc, out, wall):
        self.rc, self.out, self.wall = rc, out, wall
        m = re.findall(r"(\d+) states generated, (\d+) distinct states found", out)
        self.generated = int(m[-1][0]) if m else 0
        self.distinct = int(m[-1][1]) if m else 0
        if not m:
            m2 = re.findall(r"The number of states generated: (\d+)", out)      # -simulate
            if m2:
                self.generated = int(m2[-1])
        self.violated = re.findall(r"Invariant (\S+) is violated", out)
        self.errors = [l for l in out.splitlines() if l.startswith("Error:")]
        self.timed_out = rc == 124
        self.finished = "Model checking completed" in out or "Finished in" in out

    def prints(self, tag):
        """Values printed by PrintT(<<tag, ...>>), as raw TLA+ text.  TLC wraps long values over several
        lines (and then writes `<< "tag",`), so the output is scanned with the value parser, not by line."""
        res = []
        text = self.out
        for m in re.finditer(r'(?m)^<<\s*"' + re.escape(tag) + r'"\s*,', text):
            ps = _P(text)
            ps.i = m.start()
            try:
                ps.val()
            except (AssertionError, IndexError):
                raise MachineryError("cannot parse a %s line of TLC's output near offset %d" % (tag, m.start()))
            res.append(text[m.start():ps.i])
        return res

    def coverage_zero(self):
        """Actions never taken (from -coverage 1 output)."""
        zero = []
        for m in re.finditer(r"<(\w+) line \d+, col \d+ to line \d+, col \d+ of module (\w+)>: (\d+):(\d+)", self.out):
            if int(m.group(4)) == 0 and m.group(1) not in ("Init",):
                zero.append(m.group(2) + "!" + m.group(1))
        return sorted(set(zero))


def run_tlc(d, module, cfg=None, env=None, workers=None, timeout=600, args=(), heap="8g", simulate=None):
    """Run TLC on d/module.tla with d/cfg; always under `timeout`; tmp + metadir inside d."""
    cfg = cfg or module + ".cfg"
    meta = os.path.join(d, "meta_" + re.sub(r"\W", "_", cfg))
    shutil.rmtree(meta, ignore_errors=True)
    cmd = ["timeout", "-k", "5", str(int(timeout)), "java", "-XX:+UseParallelGC", "-Xss32m", "-Xmx" + heap,
           "-Djava.io.tmpdir=" + os.path.join(d, "tmp"),
           "-cp", JAR + ":" + DEPS, "tlc2.TLC",
           "-workers", str(workers or NCPU), "-metadir", meta, "-noGenerateSpecTE",
           "-config", cfg]
    if simulate:
        cmd += ["-simulate", simulate]
    cmd += list(args) + [module + ".tla"]
    e = dict(os.environ)
    e.pop("JAVA_TOOL_OPTIONS", None)
    e.update(env or {})
    t0 = time.time()
    # stream the output: single-line PrintT records are capped per tag (a model that flags every state would
    # otherwise produce hundreds of megabytes), everything else is kept
    logpath = os.path.join(d, "tlc_" + re.sub(r"\W", "_", cfg) + ".log")
    kept, counts, dropped = [], {}, 0
    tagre = re.compile(r'^<<\s*"(\w+)"')
    dropping = False
    with open(logpath, "w") as lf:
        lf.write(" ".join(cmd) + "\n")
        p = subprocess.Popen(cmd, cwd=d, env=e, stdout=subprocess.PIPE, stderr=subprocess.STDOUT, text=True, bufsize=1 << 20)
        for line in p.stdout:
            m = tagre.match(line)
            if m:
                n = counts.get(m.group(1), 0) + 1
                counts[m.group(1)] = n
                dropping = n > PRINT_CAP
                if dropping:
                    dropped += 1
                    continue
            elif dropping and line[:1] in (" ", "\t"):
                continue                      # continuation of a wrapped value that was dropped
            else:
                dropping = False
            kept.append(line)
            if len(kept) % 4096 == 0:
                lf.writelines(kept[-4096:])
        lf.writelines(kept[-(len(kept) % 4096):] if len(kept) % 4096 else [])
        p.wait()
    res = TLCResult(p.returncode, "".join(kept), time.time() - t0)
    res.dropped_prints = dropped
    shutil.rmtree(meta, ignore_errors=True)
    return res


class MachineryError(Exception):
    pass


def require_clean(res, what, allow_violation=False):
    """TLC must have parsed and finished (or been stopped by our own timeout)."""
    bad = [l for l in res.out.splitlines() if "Parsing or semantic analysis failed" in l
           or "TLC threw an unexpected exception" in l or "java.lang." in l and "Exception" in l
           or l.startswith("Error: ") and "Invariant" not in l and "violated" not in l
           and "behavior up to this point" not in l and "The behavior" not in l]
    if bad and not (allow_violation and res.violated):
        raise MachineryError(what + ": " + bad[0] + " (see " + what + " log)")
    if res.generated == 0 and not res.timed_out:
        raise MachineryError(what + ": TLC reported no states")


# ---------------------------------------------------------------- known findings
def load_known(pid):
    """known_findings.txt: `known: property=<id> <text>` / `fixed: property=<id> <commit> <text>`,
    each optionally followed by a `#json {...}` line with the machine-readable matcher."""
    known, fixed = [], []
    path = os.path.join(VERIF, "known_findings.txt")
    if not os.path.exists(path):
        return known, fixed
    lines = open(path).read().splitlines()
    for i, l in enumerate(lines):
        m = re.match(r"(known|fixed): property=(\S+) (.*)", l)
        if not m or m.group(2) != pid:
            continue
        meta = {}
        if i + 1 < len(lines) and lines[i + 1].startswith("#json "):
            meta = json.loads(lines[i + 1][6:])
        (known if m.group(1) == "known" else fixed).append({"text": m.group(3), "match": meta})
    return known, fixed


# ---------------------------------------------------------------- verdict / evidence
class Verdict:
    """Collects reproduced violations, known findings, model drift and coverage for one run."""

    def __init__(self, pid):
        self.pid = pid
        self.t0 = time.time()
        self.violations = []      # dicts: clause, detail, replay
        self.known_hits = {}      # text -> count
        self.drift = []
        self.states = 0
        self.transitions = 0
        self.traces = 0
        self.samples = []
        self.cov = {}
        self.assumptions = []
        self.exhaustive = None
        self.known, self.fixed = load_known(pid)
        self.vacuity = []
        self.tlc_runs = []
        self.replay_mode = False

    def add_tlc(self, name, res, constants=None):
        self.states += res.distinct
        self.transitions += res.generated
        self.tlc_runs.append({"config": name, "distinct": res.distinct, "generated": res.generated,
                              "wall_s": round(res.wall, 1), "timed_out": res.timed_out,
                              "constants": constants or {}})
        z = res.coverage_zero()
        if z:
            self.vacuity += [name + ":" + a for a in z]

    def sample(self, s, cap=6):
        if len(self.samples) < cap:
            self.samples.append(s)

    def violation(self, clause, detail, replay_obj, matcher=None):
        """A clause of the property failed on real outputs.  `matcher` is compared with the
        known findings (all keys of a known entry's match must be equal)."""
        for k in self.known:
            mt = k["match"]
            if mt and matcher and all(matcher.get(a) == b for a, b in mt.items()):
                self.known_hits[k["text"]] = self.known_hits.get(k["text"], 0) + 1
                return False
        self.violations.append({"clause": clause, "detail": detail, "replay": replay_obj})
        return True

    def finish(self, level="model_checking", rule="", extra=None):
        os.makedirs(EVID, exist_ok=True)
        for text, n in self.known_hits.items():
            print("KNOWN-FINDING: property=%s %s (%d observations)" % (self.pid, text, n))
        rc = 0
        rdir = os.path.join(VERIF, "replays")
        os.makedirs(rdir, exist_ok=True)
        for fn in os.listdir(rdir):         # replay files of earlier runs of this check and tier are stale now
            if fn.startswith("%s_%s_" % (self.pid, "replayed" if self.replay_mode else tier())):
                os.remove(os.path.join(rdir, fn))
        if self.violations:
            per = {}
            shown = 0
            for i, v in enumerate(self.violations[:200]):
                key = v["clause"]
                per[key] = per.get(key, 0) + 1
                if per[key] > 2 or shown >= 8:
                    continue
                shown += 1
                path = os.path.join(rdir, "%s_%s_%d.json" % (self.pid, "replayed" if self.replay_mode else tier(), i))
                with open(path, "w") as f:
                    json.dump({"property": self.pid, "clause": v["clause"], "detail": v["detail"],
                               "replay": v["replay"]}, f, indent=1, default=str)
                print("VIOLATION property=%s replay=%s clause=%s %s" % (self.pid, path, v["clause"], str(v["detail"])[:300]))
            rc = 1
        cov = {"states": max(self.states, 0), "transitions": max(self.transitions, 0),
               "traces_validated_against_impl": self.traces,
               "samples": self.samples or ["(none)"], "rule": rule,
               "tlc_runs": self.tlc_runs, "model_drift": self.drift[:20],
               "vacuity_warnings": self.vacuity, "known_findings_seen": self.known_hits}
        if self.exhaustive is not None:
            cov["exhaustive"] = bool(self.exhaustive)
        cov.update(self.cov)
        cov.update(extra or {})
        ev = {"property_id": self.pid, "tier": tier(), "seed": seed(), "level": level, "coverage": cov,
              "assumptions": self.assumptions, "wall_s": round(time.time() - self.t0, 2),
              "violations": len(self.violations)}
        if not self.replay_mode:
            with open(os.path.join(EVID, self.pid + ".json"), "w") as f:
                json.dump(ev, f, indent=1, default=str)
        print("%s %s: states=%d transitions=%d traces=%d violations=%d drift=%d wall=%.1fs" % (
            self.pid, tier(), self.states, self.transitions, self.traces, len(self.violations), len(self.drift), time.time() - self.t0))
        return rc


# ---------------------------------------------------------------- small encoders shared by traces
def nibs(n):
    """64-bit id -> 16 hex digits as integers (TLC integers are 32 bit)."""
    return [(n >> (60 - 4 * i)) & 15 for i in range(16)]


def unnibs(a):
    v = 0
    for x in a:
        v = v * 16 + x
    return v


def write_ndjson(path, events):
    with open(path, "w") as f:
        for e in events:
            f.write(json.dumps(e, separators=(",", ":")) + "\n")


def tla_seq(xs):
    return "<<" + ", ".join(tla_val(x) for x in xs) + ">>"


def tla_val(x):
    if isinstance(x, bool):
        return "TRUE" if x else "FALSE"
    if isinstance(x, int):
        return str(x)
    if isinstance(x, str):
        return '"' + x + '"'
    if isinstance(x, (list, tuple)):
        return tla_seq(x)
    raise TypeError(x)


# ---------------------------------------------------------------- TLA+ value parser (state dumps)
class _P:
    def __init__(self, s):
        self.s, self.i = s, 0

    def ws(self):
        while self.i < len(self.s) and self.s[self.i] in " \t\r\n":
            self.i += 1

    def val(self):
        self.ws()
        s = self.s
        if s.startswith("<<", self.i):
            self.i += 2
            out = []
            self.ws()
            if s.startswith(">>", self.i):
                self.i += 2
                return out
            while True:
                out.append(self.val())
                self.ws()
                if s.startswith(">>", self.i):
                    self.i += 2
                    return out
                assert s[self.i] == ",", s[self.i:self.i + 20]
                self.i += 1
        if s[self.i] == "[":
            self.i += 1
            rec = {}
            while True:
                self.ws()
                m = re.compile(r"(\w+)\s*\|->\s*").match(s, self.i)
                assert m, s[self.i:self.i + 30]
                self.i = m.end()
                rec[m.group(1)] = self.val()
                self.ws()
                if s[self.i] == "]":
                    self.i += 1
                    return rec
                assert s[self.i] == ",", s[self.i:self.i + 20]
                self.i += 1
        if s[self.i] == "{":
            self.i += 1
            out = []
            self.ws()
            if s[self.i] == "}":
                self.i += 1
                return out
            while True:
                out.append(self.val())
                self.ws()
                if s[self.i] == "}":
                    self.i += 1
                    return out
                assert s[self.i] == ",", s[self.i:self.i + 20]
                self.i += 1
        if s[self.i] == '"':
            j = self.i + 1
            buf = []
            while s[j] != '"':
                if s[j] == "\\":
                    j += 1
                buf.append(s[j])
                j += 1
            self.i = j + 1
            return "".join(buf)
        m = re.compile(r"-?\d+|TRUE|FALSE|\w+").match(s, self.i)
        assert m, s[self.i:self.i + 30]
        self.i = m.end()
        t = m.group(0)
        if t == "TRUE":
            return True
        if t == "FALSE":
            return False
        try:
            return int(t)
        except ValueError:
            return t


def parse_tla(s):
    return _P(s).val()


def parse_dump(path):
    """TLC -dump file -> list of {var: value} (one per distinct state)."""
    states = []
    cur = None
    buf = []
    with open(path) as f:
        text = f.read()
    for blk in re.split(r"\nState \d+:\n|^State \d+:\n", text):
        blk = blk.strip()
        if not blk:
            continue
        st = {}
        for part in re.split(r"(?:^|\n)/\\ ", blk):
            part = part.strip()
            if not part:
                continue
            name, _, v = part.partition(" =")
            st[name.strip()] = parse_tla(v)
        states.append(st)
    return states


# ---------------------------------------------------------------- trace judging
JUDGE_BLOCKS = 64


JUDGE_CHUNK = 60000
PRINT_CAP = 120000        # single-line PrintT records kept per tag and TLC run
JUDGE_BYTES = 70 * 1000 * 1000


def judge(d, module, events, timeout=900, name=None, heap="12g", extra_env=None, workers=None):
    """Write events as ndjson, let TLC evaluate module's Clauses on every event, return
    (TLCResult, {index(0-based): [failed clause names]}).  Large traces are judged in chunks (the
    deserialised trace has to fit TLC's heap).  Raises MachineryError unless every event was consumed."""
    name = name or module
    sizes = [len(json.dumps(e, separators=(",", ":"))) + 1 for e in events] if len(events) > 2000 else []
    if len(events) > JUDGE_CHUNK or sum(sizes) > JUDGE_BYTES:
        cuts, n, b = [0], 0, 0
        for k, sz in enumerate(sizes):
            if n >= JUDGE_CHUNK or b + sz > JUDGE_BYTES:
                cuts.append(k)
                n, b = 0, 0
            n += 1
            b += sz
        cuts.append(len(events))
        total = None
        bad = {}
        for c in range(len(cuts) - 1):
            lo, hi = cuts[c], cuts[c + 1]
            if lo == hi:
                continue
            res, bb = _judge_one(d, module, events[lo:hi], timeout, "%s_part%d" % (name, c), heap, extra_env, workers)
            for k, val in bb.items():
                bad[lo + k] = val
            if total is None:
                total = res
            else:
                total.generated += res.generated
                total.distinct += res.distinct
                total.wall += res.wall
                total.out += res.out
        return total, bad
    return _judge_one(d, module, events, timeout, name, heap, extra_env, workers)


def _judge_one(d, module, events, timeout, name, heap, extra_env, workers):
    path = os.path.join(d, name + ".ndjson")
    write_ndjson(path, events)
    env = {"TRACE_FILE": path}
    env.update(extra_env or {})
    res = run_tlc(d, module, env=env, timeout=timeout, heap=heap, workers=workers)
    require_clean(res, name)
    bad = {}
    for l in res.prints("BAD"):
        v = parse_tla(l)
        bad[v[1] - 1] = v[2]
    want = len(events) + JUDGE_BLOCKS + 1
    if res.distinct != want or res.timed_out:
        raise MachineryError("%s: %d of %d trace states reached (timeout=%s)" % (name, res.distinct, want, res.timed_out))
    try:
        os.remove(path)
    except OSError:
        pass
    return res, bad


def me_pair(n):
    """integer -> [m, e] with n = m * 4^e and 4 not dividing m (how big counts reach TLC)."""
    if n == 0:
        return [0, 0]
    e = 0
    while n % 4 == 0:
        n //= 4
        e += 1
    if n >= 2 ** 31:
        raise MachineryError("count does not fit the <<m, e>> form: %d" % n)
    return [n, e]
