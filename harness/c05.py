"""C05 - ids are a faithful 64-bit code.

B1: TLC walks the real hierarchy (MC_Layout: every cell to Depth, digit-pattern continuations to
MaxRes) checking the layout design; its state dump is replayed on the real serialize /
get_resolution / deserialize.  B2: the real outputs, together with TLC's expected id, go back
to TLC (Trace_Layout), which evaluates the clauses of the property on them."""
import random
from . import core, params, cells, apa


def enc_event(c, exp=None):
    ser, org, utils = cells.api()
    e = {"ev": "enc", "r": c["r"], "f": c["f"], "s": c["s"], "d": list(c["d"]), "exp": exp or [],
         "ok": False, "exc": "", "wide": False, "id": [], "res": -9, "dec": {"ok": False, "r": -9, "f": -1, "s": -1, "d": []}, "re": []}
    try:
        i = ser.serialize(cells.a5cell(c))
    except Exception as ex:
        e["exc"] = type(ex).__name__ + ": " + str(ex)
        return e
    e["ok"] = isinstance(i, int) and not isinstance(i, bool)
    if not e["ok"]:
        e["exc"] = "serialize returned " + repr(i)
        return e
    e["wide"] = i < 0 or i.bit_length() > 64
    e["id"] = core.nibs(i & (2 ** 64 - 1))
    try:
        e["res"] = ser.get_resolution(i)
        dc = ser.deserialize(i)
        e["dec"] = cells.abstract(dc)
        e["re"] = core.nibs(ser.serialize(dc) & (2 ** 64 - 1))
    except Exception as ex:
        e["exc"] = type(ex).__name__ + ": " + str(ex)
    return e


def nofit_events(maxres, rng, per_r):
    """positions that do not fit their resolution must raise, never yield an id"""
    ser, org, utils = cells.api()
    out = []
    for r in range(2, maxres + 1):
        n = r - 1
        cands = [4 ** n, 64 * 4 ** n + rng.randrange(4 ** n), 4 ** n + rng.randrange(4 ** n), 4 ** n + 1, 2 * 4 ** n, 4 ** (n + 1) - 1,
                 4 ** (n + 2), rng.randrange(1, 1 << 20) * 64 * 4 ** n + rng.randrange(4 ** n), (1 << 64) * 4 ** n, (1 << 64) + rng.randrange(4 ** n)]
        for S in cands[:per_r]:
            f, s = rng.randrange(len(org.origins)), rng.randrange(5)
            e = {"ev": "nofit", "r": r, "f": f, "s": s, "S": hex(S), "raised": False, "got": ""}
            try:
                i = ser.serialize(utils.A5Cell(origin=org.origins[f], segment=s, S=S, resolution=r))
                e["got"] = hex(i)
            except ValueError:
                e["raised"] = True
            except Exception as ex:
                e["raised"] = True
                e["got"] = type(ex).__name__
            out.append(e)
    # a resolution beyond MaxRes has no id either
    for r in (maxres + 1, maxres + 2):
        e = {"ev": "nofit", "r": r, "f": 0, "s": 0, "S": "0x0", "raised": False, "got": ""}
        try:
            e["got"] = hex(ser.serialize(utils.A5Cell(origin=org.origins[0], segment=0, S=0, resolution=r)))
        except Exception:
            e["raised"] = True
        out.append(e)
    return out


def kidsmax_events(p, rng, n):
    """children at MAX_RESOLUTION through cell_to_children / uncompact: a second road to ids of the finest level"""
    ser, org, utils = cells.api()
    params.import_a5()
    import a5
    out = []
    mr = p["MaxRes"]
    for k in range(n):
        r = mr - 1 - (k % 2)
        c = {"r": r, "f": rng.randrange(p["NF"]), "s": rng.randrange(p["NS"]), "d": [rng.randrange(4) for _ in range(r - 1)]}
        cid = cells.real_id(c)
        for how in ("children", "default", "uncompact"):
            if how == "default" and r != mr - 1:
                continue
            e = {"ev": "kidsmax", "r": mr, "from": r, "how": how, "cell": "%016x" % cid, "ok": False, "exc": "", "n": 0, "want": 4 ** (mr - r),
                 "allres": False, "distinct": False, "parentok": False}
            try:
                kids = ser.cell_to_children(cid, mr) if how == "children" else ser.cell_to_children(cid) if how == "default" else a5.uncompact([cid], mr)
                e["ok"] = True
                e["n"] = len(kids)
                e["distinct"] = len(set(kids)) == len(kids)
                e["allres"] = all(isinstance(x, int) and 0 < x < 2 ** 64 and ser.get_resolution(x) == mr for x in kids)
                try:
                    e["parentok"] = all(ser.cell_to_parent(x, r) == cid for x in kids)
                except Exception:
                    e["parentok"] = False
            except Exception as ex:
                e["exc"] = type(ex).__name__ + ": " + str(ex)
            out.append(e)
    return out


def count_events(upto, maxres):
    """two rounds: between them the caller scribbles on every list the API handed out (a
    caller owns the lists it gets; later enumerations must not be affected)"""
    ser, org, utils = cells.api()
    from a5.core import cell_info
    out = []
    for rnd in (1, 2):
        handed = []
        for r in range(0, upto + 1):
            if rnd == 2 and r >= 1:
                import a5 as _a5
                ids = _a5.uncompact(ser.get_res0_cells(), r)        # the other way of enumerating a level
            else:
                ids = ser.get_res0_cells() if r == 0 and rnd == 2 else ser.cell_to_children(0, r)
            handed.append(ids)
            try:
                allres = all(ser.get_resolution(i) == r and ser.serialize(ser.deserialize(i)) == i for i in ids)
            except Exception:
                allres = False
            out.append({"ev": "count", "r": r, "round": rnd, "total": len(ids), "distinct": len(set(ids)),
                        "num": core.me_pair(cell_info.get_num_cells(r)), "allres": allres})
        handed.append(ser.get_res0_cells())
        for lst in handed:
            if isinstance(lst, list):
                lst.reverse()
                del lst[::2]
        upto = min(upto, 3)
    for r in range(-1, maxres + 1):
        out.append({"ev": "numcells", "r": r, "num": core.me_pair(cell_info.get_num_cells(r))})
    return out


def pattern_cells(p, rng, per_r):
    """B2 inputs TLC's walker does not reach: random and top-digit-only strings at every r"""
    out = []
    for r in range(0, p["MaxRes"] + 1):
        n = max(0, r - 1)
        for _ in range(per_r):
            f, s = rng.randrange(p["NF"]), rng.randrange(p["NS"])
            kind = rng.randrange(4)
            if kind == 0:
                d = [rng.randrange(4) for _ in range(n)]
            elif kind == 1:
                d = [rng.randrange(1, 4)] + [0] * (n - 1) if n else []
            elif kind == 2:
                d = [0] * (n - 1) + [rng.randrange(1, 4)] if n else []
            else:
                d = [3] * n
            out.append({"r": r, "f": f if r >= 0 else 0, "s": s if r >= 1 else 0, "d": d})
    return out


def run(v):
    quick = core.tier() == "quick"
    rng = random.Random(core.seed() * 7919 + 5)
    d = core.workdir("C05")
    p = params.stage(d)
    depth, deep_from = (5, 2) if quick else (8, 3)
    cfg = open(d + "/MC_Layout.cfg").read().replace("Depth = 4", "Depth = %d" % depth).replace("DeepFrom = 3", "DeepFrom = %d" % deep_from)
    open(d + "/MC_Layout.cfg", "w").write(cfg)
    res = core.run_tlc(d, "MC_Layout", args=["-dump", d + "/layout", "-coverage", "1"], timeout=1500)
    core.require_clean(res, "MC_Layout", allow_violation=True)
    v.add_tlc("MC_Layout", res, {"Depth": depth, "DeepFrom": deep_from, "NF": p["NF"], "NS": p["NS"], "MaxRes": p["MaxRes"]})
    if res.violated:
        # the design itself fails an invariant below MaxRes: confirm on the code via the trace below
        v.drift.append({"what": "MC_Layout invariant violated in the model", "invariants": res.violated})
    # design-level finding F4: at MaxRes no bit is left for the marker
    cfg2 = "SPECIFICATION Spec\nCONSTANTS Depth = 2\n DeepFrom = 2\nINVARIANT FitsAtMax\nCHECK_DEADLOCK FALSE\n"
    open(d + "/MC_Layout_max.cfg", "w").write(cfg2)
    r2 = core.run_tlc(d, "MC_Layout", cfg="MC_Layout_max.cfg", timeout=300)
    v.add_tlc("MC_Layout_max", r2, {"invariant": "FitsAtMax", "violated_in_model": bool(r2.violated)})
    states = core.parse_dump(d + "/layout.dump")
    events = []
    for st in states:
        c = st["c"]
        if c["r"] < 0:
            continue
        events.append(enc_event(c, st["id"]))
    n_b1 = len(events)
    for c in pattern_cells(p, rng, 40 if quick else 400):
        events.append(enc_event(c))
    events += nofit_events(p["MaxRes"], rng, 4 if quick else 10)
    events += kidsmax_events(p, rng, 6 if quick else 40)
    events += count_events(6 if quick else 8, p["MaxRes"])
    tres, bad = core.judge(d, "Trace_Layout", events, timeout=2400)
    v.add_tlc("Trace_Layout", tres, {"events": len(events)})
    v.traces += len(events)
    v.cov["b1_states_replayed"] = n_b1
    v.cov["b2_events"] = len(events) - n_b1
    for e in events[:2] + events[n_b1:n_b1 + 1] + events[-40:-39]:
        v.sample(e)
    for i, clauses in sorted(bad.items()):
        e = events[i]
        real = [c for c in clauses if c.startswith("C05")]
        if real:
            matcher = {"clause": real[0], "r": e.get("r"), "exc_has": "negative shift count" if "negative shift count" in e.get("exc", "") else ""}
            v.violation(real[0], {k: e.get(k) for k in ("ev", "r", "f", "s", "d", "S", "exc", "got", "res", "dec", "cell", "how", "n", "allres", "parentok") if k in e},
                        {"check": "C05", "event": e}, matcher)
        elif any(c.startswith("wellformed") for c in clauses):
            raise core.MachineryError("malformed event %r" % e)
        else:
            v.drift.append({"clauses": clauses, "cell": {k: e.get(k) for k in ("r", "f", "s", "d")}, "id": e.get("id")})
    if not quick:
        sym = apa.run(d, v, p, rng)
        # a refuted resolution names a layout that is not injective / not decodable for SOME S: confirm on the real
        # code by running the C05 clauses on boundary positions of that resolution (done above for every resolution);
        # the symbolic result alone is recorded, verdicts stay with the clauses judged on real outputs
        for r, verdict in sym.items():
            if verdict == "refuted":
                v.drift.append({"what": "Apalache refuted the layout obligations for the affine form probed at this resolution", "resolution": r})
    v.exhaustive = False
    v.assumptions += ["table parameters (NF, NS, MaxRes, StartBit, FirstQuintant) are read from the imported code",
                      "cells deeper than Depth are reached only through the digit-pattern and random continuations"]
    return "every cell (face, segment, digits) of the real hierarchy to depth %d generated by TLC (MC_Layout) plus pattern/random continuations to MaxRes; each replayed on serialize/get_resolution/deserialize and judged by Trace_Layout; a case is non-trivial if resolution >= 0" % depth


def replay(v, obj):
    e = obj["event"]
    ser, org, utils = cells.api()
    if e["ev"] == "enc":
        evs = [enc_event({k: e[k] for k in ("r", "f", "s", "d")}, e.get("exp"))]
    elif e["ev"] == "nofit":
        ne = {"ev": "nofit", "r": e["r"], "f": e["f"], "s": e["s"], "S": e["S"], "raised": False, "got": ""}
        try:
            ne["got"] = hex(ser.serialize(utils.A5Cell(origin=org.origins[e["f"]], segment=e["s"], S=int(e["S"], 16), resolution=e["r"])))
        except Exception:
            ne["raised"] = True
        evs = [ne]
    elif e["ev"] in ("count", "numcells"):
        evs = [x for x in count_events(max(e["r"], 0) if e["ev"] == "count" else 0, 30) if x["ev"] == e["ev"] and x["r"] == e["r"]]
    else:
        raise core.MachineryError("unknown event kind in replay file")
    d = core.workdir("C05_replay")
    params.stage(d)
    tres, bad = core.judge(d, "Trace_Layout", evs, timeout=300)
    v.add_tlc("Trace_Layout", tres)
    v.traces += len(evs)
    v.sample(evs[0])
    for i, clauses in bad.items():
        ev = evs[i]
        real = [c for c in clauses if c.startswith("C05")]
        if real:
            v.violation(real[0], ev, {"check": "C05", "event": ev}, {"clause": real[0], "r": ev.get("r"), "exc_has": "negative shift count" if "negative shift count" in ev.get("exc", "") else ""})
    return "replay of one recorded observation"
