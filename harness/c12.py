"""C12 - boundary rings are well-formed polygons under every option combination."""
import random
from . import core, params, cells, geo

CLOSED = (1, 0, -1)                       # True / False / omitted
SEGS = (-2, -1, 0, 1, 2, 3, 7, 16)        # omitted / None / 'auto' / explicit
CORE8 = [(-1, -2), (0, 1), (1, 3), (-1, 0), (0, -1), (1, 7), (0, 16), (-1, 2)]


def options(closed, segs):
    o = {}
    if closed != -1:
        o["closed_ring"] = bool(closed)
    if segs == -1:
        o["segments"] = None
    elif segs == 0:
        o["segments"] = "auto"
    elif segs >= 1:
        o["segments"] = segs
    return o


def ring_event(cid, closed, segs, base):
    params.import_a5()
    import a5
    ser, org, utils = cells.api()
    e = {"ev": "ring", "cell": core.nibs(cid), "r": ser.get_resolution(cid), "closed": closed, "segs": segs, "ok": False, "exc": "",
         "n": 0, "firstlast": False, "mu": [], "g": [], "hx": [], "base": base}
    try:
        o = options(closed, segs)
        keep = dict(o)
        ring = a5.cell_to_boundary(cid, o) if (o or closed != -1 or segs != -2) else (a5.cell_to_boundary(cid) if cid % 3 else a5.cell_to_boundary(cid, None))
        if o != keep:
            e["exc"] = "options dictionary modified"
            return e
        if not geo.is_ring(ring) or len(ring) < 3:
            e["exc"] = "not a ring of (float, float) tuples"
            return e
        e["n"] = len(ring)
        e["firstlast"] = bool(ring[0] == ring[-1])
        open_ring = ring[:-1] if (closed != 0) and len(ring) > 3 else ring
        ref = (sum(p[0] for p in open_ring) / len(open_ring), sum(p[1] for p in open_ring) / len(open_ring))
        e["mu"] = [[geo.mu(p[0]), geo.mu(p[1])] for p in open_ring]
        e["g"] = geo.grid(open_ring, ref)
        e["hx"] = [geo.hx(p) for p in open_ring] if len(open_ring) <= 330 else []
        e["ok"] = True
        ring.append((0.0, 0.0))          # the caller owns the list: scribble on it
        ring.reverse()
    except Exception as ex:
        e["exc"] = type(ex).__name__ + ": " + str(ex)[:80]
    return e


def base_corners(cid):
    import a5
    ring = a5.cell_to_boundary(cid, {"closed_ring": False, "segments": 1})
    return [geo.hx(p) for p in ring]


def run(v):
    quick = core.tier() == "quick"
    rng = random.Random(core.seed() + 12)
    d = core.workdir("C12")
    p = params.stage(d)
    ser, org, utils = cells.api()
    import a5
    # the ring pipeline as a state machine: all 30 x 3 x 8 = 720 configurations
    rb = core.run_tlc(d, "A5Boundary", cfg="MC_Boundary.cfg", timeout=300, args=["-coverage", "1", "-dump", d + "/boundary"])
    core.require_clean(rb, "MC_Boundary", allow_violation=True)
    v.add_tlc("MC_Boundary", rb, {"configurations": 720})
    if rb.violated:
        v.drift.append({"what": "A5Boundary law violated in the model", "invariants": rb.violated})
    done = [s for s in core.parse_dump(d + "/boundary.dump") if s["pc"] == "Done"]
    model_len = {(s["r"], s["closed"], s["segs"]): len(s["ring"]) for s in done}
    if len(model_len) != 720:
        raise core.MachineryError("MC_Boundary produced %d finished configurations, expected 720" % len(model_len))
    # cells: all of resolutions 0..3 (quick) / 0..5 (thorough) with the 8 core combinations; the full 24 on a subset
    top = 3 if quick else 5
    all_cells = []
    for r in range(0, top + 1):
        all_cells += ser.cell_to_children(0, r)
    events = []
    plan = []
    for cid in all_cells:
        combos = CORE8 if (quick and cid % 5) else [(c, s) for c in CLOSED for s in SEGS]
        if not quick and ser.get_resolution(cid) >= 4 and cid % 7:
            combos = CORE8[:4] if cid % 2 else CORE8[4:]
        plan.append((cid, combos))
    # every resolution with all 24 combinations (one cell per face rotation), incl. deep explicit segments
    for r in range(0, 30):
        for k in range(3 if quick else 12):
            c = {"r": r, "f": rng.randrange(p["NF"]), "s": rng.randrange(p["NS"]) if r >= 1 else 0, "d": [rng.randrange(4) for _ in range(max(0, r - 1))]}
            plan.append((cells.real_id(c), [(cl, s) for cl in CLOSED for s in SEGS] + [(rng.choice(CLOSED), rng.choice((4, 5, 6, 9, 10, 13, 14, 15, 19, 24, 31, 32)))]))
    # cells crossing the antimeridian or within reach of a pole / frame point at several levels
    found = set()
    levels = (4, 6, 9, 15, 22, 29) if quick else (2, 4, 5, 6, 7, 9, 12, 15, 18, 22, 26, 28, 29)
    for (lon, lat) in geo.frame_seeds(rng)[:: (4 if quick else 1)]:
        for r in levels:
            try:
                found.add(a5.lonlat_to_cell((lon, lat), r))
            except Exception:
                pass
    for cid in sorted(found):
        extra = [(rng.choice(CLOSED), rng.choice((2, 3, 7)))]
        if ser.get_resolution(cid) >= 22:
            extra.append((rng.choice(CLOSED), rng.choice((32, 64, 5, 6, 10, 13))))       # any integer >= 1 is allowed
        plan.append((cid, rng.sample(CORE8, 3) + extra))
    n_cells = len(plan)
    for cid, combos in plan:
        base = base_corners(cid)
        combos = list(combos)
        rng.shuffle(combos)                 # the same cell with different options back to back, in varying order
        for (cl, sg) in combos:
            e = ring_event(cid, cl, sg, base)
            events.append(e)
    # model vs code on the shape (drift only): expected length per configuration
    for e in events:
        if e["ok"] and model_len.get((e["r"], e["closed"], e["segs"])) not in (None, e["n"]):
            v.drift.append({"what": "ring length differs from A5Boundary's pipeline model", "cell": "%016x" % core.unnibs(e["cell"]),
                            "closed": e["closed"], "segs": e["segs"], "n": e["n"], "model": model_len[(e["r"], e["closed"], e["segs"])]})
    tres, bad = core.judge(d, "Trace_Geo", events, timeout=3000)
    v.add_tlc("Trace_Geo", tres, {"events": len(events)})
    v.traces += len(events)
    v.cov["cells"] = n_cells
    v.cov["cells_at_frame_points_poles_antimeridian"] = len(found)
    v.cov["option_combinations_seen"] = len({(e["closed"], e["segs"]) for e in events})
    v.cov["configurations_(r,closed,segments)_seen"] = len({(e["r"], e["closed"], e["segs"]) for e in events})
    for e in (events[0], events[len(events) // 2], events[-1]):
        v.sample({"cell": "%016x" % core.unnibs(e["cell"]), "r": e["r"], "closed": e["closed"], "segs": e["segs"], "n": e["n"], "first_vertices_udeg": e["mu"][:3]})
    for i, clauses in sorted(bad.items()):
        e = events[i]
        real = [c for c in clauses if c.startswith("C12")]
        det = {"cell": "%016x" % core.unnibs(e["cell"]), "r": e["r"], "closed_ring": {1: True, 0: False, -1: "omitted"}[e["closed"]],
               "segments": {-2: "omitted", -1: None, 0: "auto"}.get(e["segs"], e["segs"]), "n": e["n"], "clauses": clauses, "exc": e["exc"]}
        if real:
            v.violation(real[0], det, {"check": "C12", "cell": det["cell"], "closed": e["closed"], "segs": e["segs"]}, {"clause": real[0]})
        else:
            v.drift.append(det)
    v.exhaustive = False
    v.assumptions += ["planar clauses (jump, span, CCW, simple) are not evaluated for cells that hold a pole (recognised from the ring), as the property exempts them",
                      "CCW / simple are judged on a local integer grid (4000 units across the ring); simple only for rings of <= 36 vertices"]
    return "TLC (A5Boundary) enumerates the 720 (resolution, closed_ring, segments) configurations of the ring pipeline and checks its shape laws; real rings for every cell of resolutions 0..%d (8 core combinations, all 24 on a subset), random cells of every resolution 0..29 with all 24 combinations, and cells at frame points / poles / the antimeridian; Trace_Geo judges length, closure, latitude range, jumps, span, orientation, simplicity and corner independence" % top


def replay(v, obj):
    d = core.workdir("C12_replay")
    params.stage(d)
    cid = int(obj["cell"], 16)
    # history matters for caches keyed too coarsely: ask for the other closure first
    ring_event(cid, 1 if obj["closed"] == 0 else 0, obj["segs"], [])
    e = ring_event(cid, obj["closed"], obj["segs"], base_corners(cid))
    tres, bad = core.judge(d, "Trace_Geo", [e], timeout=300)
    v.add_tlc("Trace_Geo", tres)
    v.traces += 1
    v.sample(obj)
    for i, clauses in bad.items():
        real = [c for c in clauses if c.startswith("C12")]
        if real:
            v.violation(real[0], {"clauses": clauses}, obj, {"clause": real[0]})
    return "replay of one ring request"
