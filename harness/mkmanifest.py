"""Writes /verif/MANIFEST.json from the table below (run after adding a check)."""
import json, os, subprocess
HERE = os.path.dirname(os.path.dirname(os.path.abspath(__file__)))

CHECKS = {
 "C05": dict(
    technique="TLA+ layout spec (A5Layout) model-checked by TLC; TLC-generated cells replayed on serialize/deserialize/get_resolution; real outputs judged by TLC trace spec Trace_Layout",
    text="TLC enumerates every cell of the real 12/5/4 hierarchy to depth 5 (quick) / 8 (thorough) plus digit-pattern continuations to resolution 30, checks the layout design (round trip, validity, marker position) as invariants, and the same states are replayed on the real code; the real ids, resolutions, decodings and counts are judged clause by clause by the specification's own operators.",
    note="Trusted: TLC, the JSON bridge, the driver that calls the real functions. Table parameters are read from the code. Deeper than the depth bound only pattern/random positions are covered.",
    ref="DESIGN.md section 5 C05"),
}

NOT_APPLICABLE = {
 "C01": "judging 'the published boundary encloses the point' needs a spherical point-in-polygon oracle on float rings (real analysis); TLC cannot compute it. The search mechanism is modelled (A5Locate) but no verdict is claimed.",
 "C03": "vertex coincidence up to tolerance and spherical area sums are numeric judgements on float coordinates; the combinatorial certificate would rest on a numeric snapping step outside the specification.",
 "C04": "the judgement is a spherical/ellipsoidal area integral of a float ring (trigonometry, closed-form authalic latitude); nothing discrete to model.",
 "C07": "the bound is a great-circle distance in units of sqrt(cell area) (trigonometric oracle); its discrete core (digit-prefix distance in the lattice) is decided under C18.",
 "C11": "both clauses are great-circle distances measured in cell widths (trigonometric oracle on outputs).",
 "C13": "a real-valued identity with a 1e-11 rad tolerance; no discrete observable. Its discrete ingredients (triangle index, reflect flag, cache slot) are modelled in A5Caches under C17.",
 "C14": "spherical area of densified polygons (trigonometric integral).",
 "C15": "the oracle is the closed-form WGS84 authalic latitude (asin, log); a 1-D numeric sweep is the right tool, not a state machine.",
}


def main():
    checks = []
    for pid in sorted(CHECKS):
        c = CHECKS[pid]
        checks.append({
            "property_id": pid,
            "quick_cmd": "VERIF_TIER=quick ./check %s" % pid,
            "thorough_cmd": "VERIF_TIER=thorough ./check %s" % pid,
            "evidence_file": "/verif/evidence/%s.json" % pid,
            "replay_cmd_template": "./check %s --replay {path}" % pid,
            "engine": "tlc",
            "level_claimed": {"category": "model_checking", "text": c["text"], "design_ref": c["ref"]},
            "level_note": c["note"],
            "technique": c["technique"],
        })
    commits = subprocess.run(["git", "-C", "/repo", "log", "--format=%h %s", "--grep=^verif:"], capture_output=True, text=True).stdout.strip().splitlines()
    m = {
        "version": 1,
        "setup_cmd": "cd /verif && ./setup.sh",
        "hooks": {
            "guard": "A5_PY_VERIF",
            "enable": "environment variable A5_PY_VERIF=1 at import time (set by ./check); the package is imported from /repo's working tree, nothing is built",
            "baseline_off_cmd": "cd /repo && env -u A5_PY_VERIF /venv/bin/python -m pytest -ra -q -p no:cacheprovider --timeout=900 --continue-on-collection-errors",
            "source_commits": [c.split()[0] for c in commits],
            "add_only": True,
        },
        "engines": [
            {"name": "tlc", "path": "/usr/local/bin/tlc", "serves_properties": sorted(CHECKS), "kind_free_text": "TLC 1.8 explicit-state model checker over the TLA+ modules in /verif/spec; also evaluates the trace specifications"},
        ],
        "checks": checks,
        "not_applicable": [{"property_id": k, "reason": v} for k, v in sorted(NOT_APPLICABLE.items()) if k not in CHECKS],
        "notes": "One TLA+ specification of the A5 system in /verif/spec (A5Cells, A5Layout, ...); ./check <id> stages it with parameters read from /repo's working tree, runs TLC, replays TLC-generated states/behaviours on the real code and lets TLC judge the recorded observations. Known findings: /verif/known_findings.txt. Seeded changes: /verif/seeded/.",
    }
    with open(os.path.join(HERE, "MANIFEST.json"), "w") as f:
        json.dump(m, f, indent=1)
    print("MANIFEST.json written:", [c["property_id"] for c in checks])


if __name__ == "__main__":
    main()
