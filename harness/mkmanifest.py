"""Writes /verif/MANIFEST.json from the table below (run after adding a check)."""
import json, os, subprocess
HERE = os.path.dirname(os.path.dirname(os.path.abspath(__file__)))

CHECKS = {
 "C05": dict(
    technique="TLA+ layout spec (A5Layout) model-checked by TLC; TLC-generated cells replayed on serialize/deserialize/get_resolution; real outputs judged by TLC trace spec Trace_Layout",
    text="TLC enumerates every cell of the real 12/5/4 hierarchy to depth 5 (quick) / 8 (thorough) plus digit-pattern continuations to resolution 30, checks the layout design (round trip, validity, marker position) as invariants, and the same states are replayed on the real code; the real ids, resolutions, decodings and counts are judged clause by clause by the specification's own operators.",
    note="Trusted: TLC, the JSON bridge, the driver that calls the real functions. Table parameters are read from the code. Deeper than the depth bound only pattern/random positions are covered.",
    ref="DESIGN.md section 5 C05"),
 "C06": dict(
    technique="TLA+ session model MC_Tree (one hierarchy request per behaviour) model-checked by TLC against the abstract cell tree; TLC-generated requests replayed on cell_to_children/cell_to_parent; answers judged by TLC trace spec Trace_Tree",
    text="TLC enumerates every cell to depth 3 (quick) / 5 (thorough) and digit-pattern cells to resolution 29, and for each every children/parent/compose request in the property's quantifier (including omitted arguments and out-of-order requests), checks the tree laws on the abstract tree, and the requests are replayed on the real API in shuffled order with handed-out lists scribbled on; the answers are judged against Desc/Anc of the tree, norep, count, contiguity and parent-of-child clauses.",
    note="Trusted: TLC, JSON bridge, driver. Ids are read through A5Layout (bound to the code by C05); a flagged event is re-judged with the real deserialize before it counts.",
    ref="DESIGN.md section 5 C06"),
 "C08": dict(
    technique="TLA+ model MC_Compact (transcription of compact over real ids scaled by 2^-42, inputs built by ordered Add/Widen) model-checked by TLC against the reference compaction; TLC-generated inputs replayed on compact with hook events compared pass by pass; outputs judged by TLC trace spec Trace_Compact",
    text="TLC builds every antichain of three (quick) / five (thorough) focus sub-hierarchies of the real 12/5/4 tree plus widened (ancestor-added) inputs, runs the transcribed algorithm and checks AlgCover (covered region unchanged) on all of them; sampled inputs are replayed on the real compact in permuted and duplicated order; random multisets with ancestors/descendants/duplicates and near-miss sibling runs to resolution 29 are added; TLC judges CoverF(result) = CoverF(input) and that every recorded pass only replaces complete sibling groups by their parent.",
    note="Trusted: TLC, JSON bridge, driver, guarded hook events. Exhaustive only inside the focus universes (block symmetry on the listed faces); beyond them pattern/random inputs.",
    ref="DESIGN.md section 5 C08"),
 "C09": dict(
    technique="TLA+ model MC_Compact model-checked by TLC (AlgIsCanon, AlgNoDup, AlgNoGroup on every antichain of the focus universes; numeric-order negative control); TLC-generated antichains replayed on compact in several orders/duplications; outputs judged by TLC trace spec Trace_Compact",
    text="For antichain inputs TLC checks that the transcribed algorithm returns exactly the canonical set, without duplicates and without a complete sibling group, on every antichain of the focus universes; the same antichains (and random refinement antichains to resolution 29, near-miss runs) are replayed on the real compact in two permutations with duplicates and TLC judges canonical set, no duplicate, no complete group, idempotence and antichain preservation on the real outputs. A negative control shows the model rejects plain numeric ordering (the defect fixed by be0dab5).",
    note="Trusted: TLC, JSON bridge, driver. Exhaustive only inside the focus universes.",
    ref="DESIGN.md section 5 C09"),
 "C10": dict(
    technique="TLA+ session model MC_Tree (Build/AskList: working lists and uncompact targets) model-checked by TLC; lists replayed on uncompact after a client prelude; block-wise judgement by TLC trace spec Trace_Tree",
    text="TLC enumerates working lists of up to 3 cells built from a cell and its relatives (with multiplicity, the world cell, ancestors together with descendants) and every target around the finest member, including too-coarse targets; random deep lists to resolution 29 are added; each is replayed on uncompact and judged block by block (block i as a set = Desc(cell i, t), sizes, level, parent-of-output, argument unchanged, raises when a member is finer than t).",
    note="Trusted: TLC, JSON bridge, driver. Expansion factor bounded (<= 300 / 1100 outputs per TLC request, <= 4^5 per random member).",
    ref="DESIGN.md section 5 C10"),
 "C18": dict(
    technique="TLA+ transcription of the Hilbert digit automaton (A5Hilbert) model-checked by TLC (MC_Hilbert: round trip, inside-triangle, prefix distance, sibling distinctness on every digit string); every state replayed on s_to_anchor / pentagon centre / ij_to_s; real values judged by TLC trace spec Trace_Hilbert",
    text="Exhaustive for levels 1..6 (quick) / 1..7 (thorough) in all six orientations: TLC enumerates every digit string, checks the laws on the transcribed automaton, and every state is replayed on the real code; TLC then judges on the real anchors, quantised real centres and real indices: round trip (tuple and reused list argument), centre strictly inside the segment triangle, child centre within 0.46 parent-lattice units of the parent's centre (integer quadratic form), and per (orientation, level) that the 4^h real centres sit in pairwise distinct unit triangles that fill the triangle. Levels up to 28 by digit patterns (d000.., d333.., alternating, top/bottom digit only) and random strings.",
    note="Trusted: TLC, JSON bridge, driver; centres are quantised to 1e-4 lattice units (every centre is >= 0.14 units from the lines it is compared with). Model/code disagreement alone is drift, verdicts come from the C18.* clauses on real values.",
    ref="DESIGN.md section 5 C18"),
 "C19": dict(
    technique="TLA+ generator/model MC_Hex (lane counter) model-checked by TLC for the text-form design; generated values replayed on u64_to_hex/hex_to_u64; outputs judged by TLC trace spec Trace_Hex",
    text="TLC generates the 16-bit lane counter values (other lanes all-zero/all-one; every 16th value quick, all 65,536 per lane thorough) and checks the design of the text form; each value, plus single-bit, boundary, cell-id-shaped and random values, goes through the real functions in lower, upper and zero-padded (16/17/18/20/32 digit) forms and TLC judges canonical form, round trip and parsing clauses.",
    note="Trusted: TLC, JSON bridge, driver. 2^64 values cannot be enumerated; coverage is the lane structure of the property's quantifier.",
    ref="DESIGN.md section 5 C19"),
 "C20": dict(
    technique="TLA+ closed forms and enumerated tree (A5Cells, MC_Tree ChildrenLaw) model-checked by TLC; real get_num_cells/get_num_children/cell_area/len(cell_to_children) for all resolutions and pairs judged by TLC trace spec Trace_Tree",
    text="Finite and exhaustive: every r in -1..30 and every resolution pair; counts travel as m*4^e pairs, areas as IEEE-754 fields; TLC judges closed forms, additivity, world-expansion counts (r <= 6 / 8), the sizing rule against real list lengths, strict decrease of cell_area and the 4-ulp product clause.",
    note="Trusted: TLC, JSON bridge, driver; ulp distance is formed from the IEEE fields of the caller-side product.",
    ref="DESIGN.md section 5 C20"),
}

NOT_APPLICABLE = {
 "C01": "judging 'the published boundary encloses the point' needs a spherical point-in-polygon oracle on float rings (real analysis); TLC cannot compute it. The search mechanism is modelled (A5Locate) but no verdict is claimed.",
 "C03": "vertex coincidence up to tolerance and spherical area sums are numeric judgements on float coordinates; the combinatorial certificate would rest on a numeric snapping step outside the specification.",
 "C04": "the judgement is a spherical/ellipsoidal area integral of a float ring (trigonometry, closed-form authalic latitude); nothing discrete to model.",
 "C07": "the bound is a great-circle distance in units of sqrt(cell area) (trigonometric oracle); its discrete core (digit-prefix distance in the lattice) is decided under C18.",
 "C11": "both clauses are great-circle distances measured in cell widths (trigonometric oracle on outputs).",
 "C13": "a real-valued identity with a 1e-11 rad tolerance; no discrete observable. Its discrete ingredients (triangle index, reflect flag, cache slot) are modelled in A5Caches under C17.",
 "C14": "spherical area of densified polygons (trigonometric integral).",
 "C15": "the oracle is the closed-form WGS84 authalic latitude (asin, log); a 1-D numeric sweep is the right tool, not a state machine.",
}


def main():
    checks = []
    for pid in sorted(CHECKS):
        c = CHECKS[pid]
        checks.append({
            "property_id": pid,
            "quick_cmd": "VERIF_TIER=quick ./check %s" % pid,
            "thorough_cmd": "VERIF_TIER=thorough ./check %s" % pid,
            "evidence_file": "/verif/evidence/%s.json" % pid,
            "replay_cmd_template": "./check %s --replay {path}" % pid,
            "engine": "tlc",
            "level_claimed": {"category": "model_checking", "text": c["text"], "design_ref": c["ref"]},
            "level_note": c["note"],
            "technique": c["technique"],
        })
    commits = subprocess.run(["git", "-C", "/repo", "log", "--format=%h %s", "--grep=^verif:"], capture_output=True, text=True).stdout.strip().splitlines()
    m = {
        "version": 1,
        "setup_cmd": "cd /verif && ./setup.sh",
        "hooks": {
            "guard": "A5_PY_VERIF",
            "enable": "environment variable A5_PY_VERIF=1 at import time (set by ./check); the package is imported from /repo's working tree, nothing is built",
            "baseline_off_cmd": "cd /repo && env -u A5_PY_VERIF /venv/bin/python -m pytest -ra -q -p no:cacheprovider --timeout=900 --continue-on-collection-errors",
            "source_commits": [c.split()[0] for c in commits],
            "add_only": True,
        },
        "engines": [
            {"name": "tlc", "path": "/usr/local/bin/tlc", "serves_properties": sorted(CHECKS), "kind_free_text": "TLC 1.8 explicit-state model checker over the TLA+ modules in /verif/spec; also evaluates the trace specifications"},
        ],
        "checks": checks,
        "not_applicable": [{"property_id": k, "reason": v} for k, v in sorted(NOT_APPLICABLE.items()) if k not in CHECKS],
        "notes": "One TLA+ specification of the A5 system in /verif/spec (A5Cells, A5Layout, ...); ./check <id> stages it with parameters read from /repo's working tree, runs TLC, replays TLC-generated states/behaviours on the real code and lets TLC judge the recorded observations. Known findings: /verif/known_findings.txt. Seeded changes: /verif/seeded/.",
    }
    with open(os.path.join(HERE, "MANIFEST.json"), "w") as f:
        json.dump(m, f, indent=1)
    print("MANIFEST.json written:", [c["property_id"] for c in checks])


if __name__ == "__main__":
    main()
