"""Read the table-valued parameters of the specification from the imported code and write
A5Params.tla.  Values are parameters, not literals: a change of a table entry that keeps every
listed property true must not raise an alarm; ill-formed tables fail the ASSUMEs of the spec."""
import sys, os
from . import core


def import_a5():
    if core.REPO not in sys.path:
        sys.path.insert(0, core.REPO)
    sys.dont_write_bytecode = True
    import a5  # noqa
    return a5


def collect():
    import_a5()
    from a5.core import serialization as ser, origin as org, hilbert as hil, cell_info as ci
    origins = org.origins
    nf = len(origins)
    p = {
        "NF": nf, "NS": 5,
        "MaxRes": ser.MAX_RESOLUTION,
        "FirstHilbertRes": ser.FIRST_HILBERT_RESOLUTION,
        "StartBit": ser.HILBERT_START_BIT,
        "FirstQuintant": [o.first_quintant for o in origins],
        "Orientation": [list(o.orientation) for o in origins],
        "Pattern": list(hil.PATTERN), "PatternFlipped": list(hil.PATTERN_FLIPPED),
        "PatternRev": list(hil.PATTERN_REVERSED), "PatternFlippedRev": list(hil.PATTERN_FLIPPED_REVERSED),
    }
    # winding step per face, probed from the function rather than read from its private lists
    steps = []
    for o in origins:
        q1, _ = org.segment_to_quintant((o.first_quintant + 1) % 5, o)
        steps.append(1 if q1 == (o.first_quintant + 1) % 5 else -1)
    p["WindStep"] = steps
    return p


def module_text(p):
    L = ["---- MODULE A5Params ----", "EXTENDS Integers",
         "(* GENERATED at check time from the imported code under /repo - do not edit. *)"]
    for k in ("NF", "NS", "MaxRes", "FirstHilbertRes", "StartBit"):
        L.append("%s == %d" % (k, p[k]))
    for k in ("FirstQuintant", "WindStep", "Pattern", "PatternFlipped", "PatternRev", "PatternFlippedRev"):
        L.append("%s == %s" % (k, core.tla_seq(p[k])))
    L.append("Orientation == %s" % core.tla_seq(p["Orientation"]))
    L.append("====")
    return "\n".join(L) + "\n"


def stage(d, extra=None):
    p = collect()
    files = {"A5Params.tla": module_text(p)}
    files.update(extra or {})
    core.stage_specs(d, files)
    return p
