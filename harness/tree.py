"""Shared by C06 / C10 / C20: run the MC_Tree session model, replay its requests on the real
hierarchy API, build the events Trace_Tree judges.  Every list the API hands out is scribbled
on afterwards (the caller owns it), so hidden sharing between calls shows up in later answers."""
import random, struct
from . import core, params, cells

OMIT = -99
_handed = []


def _scribble():
    """mutate, in place, every list the API returned so far"""
    for lst in _handed:
        if isinstance(lst, list):
            lst.reverse()
            del lst[::2]
            lst.append(0x7777)
    del _handed[:]


def _ids_ok(x):
    return isinstance(x, list) and all(isinstance(i, int) and not isinstance(i, bool) and 0 <= i < 2 ** 64 for i in x)


def mc_tree(d, v, quick, want=("children", "parent", "compose", "uncompact")):
    p = params.stage(d)
    if quick:
        consts = dict(Depth=3, DeepFrom=2, Span=3, DeepFaces="{0, 5, 11}", DeepRes0="{9, 14, 15, 28, 29}", ListFaces="{0, 11}", ListDepth=2, ExpCap=300)
    else:
        consts = dict(Depth=5, DeepFrom=3, Span=3, DeepFaces="{0, 2, 5, 9, 11}", DeepRes0="{6, 9, 13, 14, 15, 16, 20, 26, 27, 28, 29}", ListFaces="{0, 3, 11}", ListDepth=3, ExpCap=1100)
    cfg = "SPECIFICATION Spec\nCONSTANTS\n" + "".join("  %s = %s\n" % kv for kv in consts.items())
    cfg += "INVARIANT TypeOK\nINVARIANT ChildrenLaw\nINVARIANT ParentLaw\nINVARIANT ComposeLaw\nINVARIANT UncompactLaw\nCHECK_DEADLOCK FALSE\n"
    open(d + "/MC_Tree.cfg", "w").write(cfg)
    res = core.run_tlc(d, "MC_Tree", args=["-dump", d + "/tree", "-coverage", "1"], timeout=2400)
    core.require_clean(res, "MC_Tree", allow_violation=True)
    v.add_tlc("MC_Tree", res, consts)
    if res.violated:
        v.drift.append({"what": "MC_Tree invariant violated in the model", "invariants": res.violated})
    states = [s for s in core.parse_dump(d + "/tree.dump") if s["op"]["name"] in want]
    return p, states


def children_event(cid, b):
    ser, org, utils = cells.api()
    e = {"ev": "children", "cell": core.nibs(cid), "b": b, "ok": False, "exc": "", "ret": [], "back": [], "argsame": True}
    try:
        ret = ser.cell_to_children(cid) if b == OMIT else ser.cell_to_children(cid, b)
    except Exception as ex:
        e["exc"] = type(ex).__name__ + ": " + str(ex)[:80]
        return e
    if not _ids_ok(ret):
        e["exc"] = "not a list of 64-bit ints"
        return e
    _handed.append(ret)
    e["ok"] = True
    e["ret"] = [core.nibs(x) for x in ret]
    try:
        r = ser.get_resolution(cid)
        e["back"] = [core.nibs(x) for x in sorted(set(ser.cell_to_parent(x, r) for x in ret))]
    except Exception as ex:
        e["back"] = [[0]]
        e["exc"] = "parent of child: " + type(ex).__name__
    return e


def parent_event(cid, a):
    ser, org, utils = cells.api()
    e = {"ev": "parent", "cell": core.nibs(cid), "a": a, "ok": False, "exc": "", "ret": [], "res": -9, "among": True}
    try:
        ret = ser.cell_to_parent(cid) if a == OMIT else ser.cell_to_parent(cid, a)
    except Exception as ex:
        e["exc"] = type(ex).__name__ + ": " + str(ex)[:80]
        return e
    if not (isinstance(ret, int) and 0 <= ret < 2 ** 64):
        e["exc"] = "not a 64-bit int"
        return e
    e["ok"] = True
    e["ret"] = core.nibs(ret)
    try:
        e["res"] = ser.get_resolution(ret)
        r = ser.get_resolution(cid)
        if 0 <= r - e["res"] <= 4:
            kids = ser.cell_to_children(ret, r)
            _handed.append(kids)
            e["among"] = cid in kids
    except Exception as ex:
        e["among"] = False
        e["exc"] = "descendants of parent: " + type(ex).__name__
    return e


def compose_event(cid, m, a):
    ser, org, utils = cells.api()
    from a5.core import cell_info
    e = {"ev": "compose", "cell": core.nibs(cid), "m": m, "a": a, "ok": False, "exc": "", "direct": [], "via": [1],
         "kids": [], "kidsvia": []}
    try:
        r = ser.get_resolution(cid)
        direct = ser.cell_to_parent(cid, a)
        via = ser.cell_to_parent(ser.cell_to_parent(cid, m), a)
        e["direct"], e["via"] = core.nibs(direct), core.nibs(via)
        if cell_info.get_num_children(a, r) <= 64 and (cid % 1000003 + 7 * m + 13 * a) % 4 == 0:
            kids = ser.cell_to_children(direct, r)
            mids = ser.cell_to_children(direct, m)
            kv = []
            for k in mids:
                sub = ser.cell_to_children(k, r)
                _handed.append(sub)
                kv += list(sub)
            e["kids"] = [core.nibs(x) for x in kids]
            e["kidsvia"] = [core.nibs(x) for x in kv]
            _handed.append(kids)
            _handed.append(mids)
        e["ok"] = True
    except Exception as ex:
        e["exc"] = type(ex).__name__ + ": " + str(ex)[:80]
    return e


def uncompact_event(ids, t, prelude=False):
    params.import_a5()
    import a5
    ser, org, utils = cells.api()
    from a5.core import cell_info
    if prelude:
        # the client first looks at the same expansions through the public API and edits the
        # lists it was given - a later uncompact must not be affected
        try:
            _handed.append(a5.get_res0_cells())
            for cid in ids:
                if 0 <= t - ser.get_resolution(cid) <= 4:
                    _handed.append(a5.cell_to_children(cid, t))
                    _handed.append(a5.cell_to_children(cid))
        except Exception:
            pass
        _scribble()
    arg = list(ids)
    e = {"ev": "uncompact", "cells": [core.nibs(x) for x in ids], "t": t, "ok": False, "exc": "", "ret": [],
         "argsame": True, "backok": True, "sum": [0, 0]}
    try:
        ret = a5.uncompact(arg, t)
    except Exception as ex:
        e["exc"] = type(ex).__name__ + ": " + str(ex)[:80]
        e["argsame"] = arg == list(ids)
        return e
    e["argsame"] = arg == list(ids)
    if not _ids_ok(ret):
        e["exc"] = "not a list of 64-bit ints"
        return e
    e["ok"] = True
    e["ret"] = [core.nibs(x) for x in ret]
    try:
        tot, pos, ok = 0, 0, True
        for cid in ids:
            r = ser.get_resolution(cid)
            n = cell_info.get_num_children(r, t)
            tot += n
            for x in ret[pos:pos + n]:
                if ser.cell_to_parent(x, r) != cid:
                    ok = False
            pos += n
        e["backok"] = ok
        e["sum"] = core.me_pair(tot)
    except Exception as ex:
        e["backok"] = False
        e["exc"] = "parent of output: " + type(ex).__name__
    _handed.append(ret)
    if ret is arg:
        e["argsame"] = False
    return e


def event_for_state(st):
    c, op = st["c"], st["op"]
    cid = core.unnibs(_spec_id(c))
    if op["name"] == "children":
        return children_event(cid, op["b"])
    if op["name"] == "parent":
        return parent_event(cid, op["a"])
    if op["name"] == "compose":
        return compose_event(cid, op["b"], op["a"])
    if op["name"] == "uncompact":
        return uncompact_event([core.unnibs(_spec_id(x)) for x in st["ws"]], op["b"], prelude=(len(_handed) % 3 == 0))
    raise core.MachineryError("unknown op %r" % (op,))


def _spec_id(c):
    """id of an abstract cell through the real serialize (C05 binds it to the spec's Encode)"""
    if c["r"] == -1:
        return core.nibs(0)
    return core.nibs(cells.real_id(c))


def replay_states(states, rng, scribble_every=7):
    """replay in shuffled order, scribbling on handed-out lists every few calls and repeating some"""
    order = list(range(len(states)))
    rng.shuffle(order)
    events = []
    for n, i in enumerate(order):
        events.append(event_for_state(states[i]))
        if n % scribble_every == 0:
            _scribble()
        if n % 11 == 0:
            events.append(event_for_state(states[i]))     # same request again, after scribbling
    _scribble()
    return events


def fbits(x):
    """positive finite float -> [exponent, mantissa high 26 bits, mantissa low 26 bits]"""
    q = struct.unpack(">Q", struct.pack(">d", x))[0]
    return [(q >> 52) & 0x7ff, (q >> 26) & 0x3ffffff, q & 0x3ffffff], (q >> 63) == 0 and x == x and x not in (float("inf"),)


def random_deep_lists(p, rng, n):
    """lists for uncompact that TLC's small model does not reach: deep random cells with relatives;
    every member is at most 5 levels above the target so the expansion stays enumerable"""
    ser, org, utils = cells.api()
    out = []
    for _ in range(n):
        t = rng.choice([rng.randrange(0, 30), rng.randrange(0, 30), 29, 28, 2, 1, 0])
        k = rng.randrange(1, 6)
        ids = []
        for _ in range(k):
            r = rng.randrange(max(-1, t - 5), t + 1)
            if t <= 4 and rng.random() < 0.5:
                r = max(r, 0)           # keep world expansions rare
            c = {"r": r, "f": rng.randrange(p["NF"]) if r >= 0 else 0, "s": rng.randrange(p["NS"]) if r >= 1 else 0,
                 "d": [rng.randrange(4) for _ in range(max(0, r - 1))]}
            cid = 0 if r < 0 else cells.real_id(c)
            ids.append(cid)
            if rng.random() < 0.4:
                ids.append(cid)
            if rng.random() < 0.3 and r > max(-1, t - 5):
                ids.append(ser.cell_to_parent(cid, rng.randrange(max(-1, t - 5), r)))
        if rng.random() < 0.15 and t < 29:
            # one member finer than the target: the call must raise and return nothing
            r = rng.randrange(t + 1, min(30, t + 4))
            c = {"r": r, "f": rng.randrange(p["NF"]), "s": rng.randrange(p["NS"]) if r >= 1 else 0,
                 "d": [rng.randrange(4) for _ in range(max(0, r - 1))]}
            ids.insert(rng.randrange(len(ids) + 1), cells.real_id(c))
        out.append((ids, t))
    return out
