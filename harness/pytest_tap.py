"""pytest plugin (loaded with -p harness.pytest_tap): records the guarded hook events emitted while the
repository's own tests run, one JSON line per event, tagged with the test id.  The traces are then
validated by the trace specifications (compact passes by Trace_Compact, cache lookups by Trace_Pure)."""
import json, os


def _out():
    return os.environ.get("A5_TAP_FILE")


def pytest_runtest_teardown(item, nextitem):
    path = _out()
    if not path:
        return
    try:
        from a5 import _verif
    except Exception:
        return
    evs = _verif.drain()
    if not evs:
        return
    with open(path, "a") as f:
        for e in evs:
            try:
                f.write(json.dumps({"test": item.nodeid, "e": e}, default=lambda o: list(o) if isinstance(o, (tuple, set)) else str(o)) + "\n")
            except Exception:
                pass
