"""A pristine template process (a5 imported, never called) that forks once per request, so that
every call can also be observed with an empty history - about 2 ms per call."""
import os, sys, json, struct, subprocess
from . import core

SERVER = r'''
import sys, os, json, struct
sys.dont_write_bytecode = True
sys.path.insert(0, sys.argv[1]); sys.path.insert(0, sys.argv[2])
import a5                                  # imported, never called
from harness import calls, sched
inp, out = sys.stdin.buffer, sys.stdout.buffer
while True:
    hdr = inp.read(4)
    if len(hdr) < 4:
        break
    n = struct.unpack(">I", hdr)[0]
    descs = json.loads(inp.read(n))
    res = []
    for desc in descs:
        r, w = os.pipe()
        pid = os.fork()
        if pid == 0:
            os.close(r)
            try:
                if isinstance(desc, dict) and "fn" in desc:
                    msg = json.dumps(getattr(sched, desc["fn"])(*desc["args"]))
                else:
                    x = calls.execute(desc)
                    msg = json.dumps({"bits": x["bits"], "preview": x["preview"]})
            except BaseException as ex:
                msg = json.dumps({"bits": "forkfail:" + type(ex).__name__, "preview": str(ex)[:80]})
            os.write(w, msg.encode())
            os._exit(0)
        os.close(w)
        buf = b""
        while True:
            chunk = os.read(r, 65536)
            if not chunk:
                break
            buf += chunk
        os.close(r)
        os.waitpid(pid, 0)
        res.append(json.loads(buf) if buf else {"bits": "forkfail:empty", "preview": ""})
    data = json.dumps(res).encode()
    out.write(struct.pack(">I", len(data)) + data)
    out.flush()
'''


class Fresh:
    def __init__(self):
        env = dict(os.environ)
        env["PYTHONHASHSEED"] = "0"
        self.p = subprocess.Popen([sys.executable, "-c", SERVER, core.REPO, core.VERIF], stdin=subprocess.PIPE, stdout=subprocess.PIPE, env=env)

    def run(self, descs):
        data = json.dumps(descs).encode()
        self.p.stdin.write(struct.pack(">I", len(data)) + data)
        self.p.stdin.flush()
        hdr = self.p.stdout.read(4)
        if len(hdr) < 4:
            raise core.MachineryError("fresh-process template died")
        n = struct.unpack(">I", hdr)[0]
        return json.loads(self.p.stdout.read(n))

    def close(self):
        try:
            self.p.stdin.close()
            self.p.wait(timeout=10)
        except Exception:
            self.p.kill()
