"""C17 - every API call is a pure function of its arguments."""
import math, os, random
from . import core, params, cells, calls, fresh, geo, testtraces

TODAY = dict(RefOff=10, SqOff=20, FaceMul=10, STRefOff=120)


def face_point(t, refl):
    gamma = (t + 0.5) * math.pi / 5
    rho = 0.72 if refl else 0.3
    return (rho * math.cos(gamma), rho * math.sin(gamma))


def probe_slots():
    """slot chosen by the real code for every key, read from the hook events (a parameter table)"""
    params.import_a5()
    from a5 import _verif
    from a5.projections.dodecahedron import DodecahedronProjection
    ftab, stab = {}, {}
    for t in range(10):
        for refl in (False, True):
            for sq in (False, True):
                inst = DodecahedronProjection()
                _verif.drain()
                inst.get_face_triangle(t, refl, sq)
                ev = [h for h in _verif.drain() if h.get("cache") == "face"]
                ftab[(t, refl, sq)] = ev[0]["slot"]
    for f in range(12):
        for t in range(10):
            for refl in (False, True):
                inst = DodecahedronProjection()
                _verif.drain()
                inst.get_spherical_triangle(t, f, refl)
                ev = [h for h in _verif.drain() if h.get("cache") == "spherical"]
                stab[(f, t, refl)] = ev[0]["slot"]
    return ftab, stab


def fit(ftab, stab):
    """today's arithmetic if the probed tables follow it, else None"""
    c = dict(TODAY)
    okf = all(ftab[(t, r, s)] == t + ((c["SqOff"] if s else c["RefOff"]) if r else 0) for (t, r, s) in ftab)
    oks = all(stab[(f, t, r)] == c["FaceMul"] * f + t + (c["STRefOff"] if r else 0) for (f, t, r) in stab)
    return okf and oks


def slots_module(ftab, stab):
    b = lambda x: "TRUE" if x else "FALSE"
    fl = " @@ ".join("(<<%d, %s, %s>> :> %d)" % (t, b(r), b(s), v) for (t, r, s), v in sorted(ftab.items()))
    sl = " @@ ".join("(<<%d, %d, %s>> :> %d)" % (f, t, b(r), v) for (f, t, r), v in sorted(stab.items()))
    return ("---- MODULE A5CacheSlots ----\n(* GENERATED: slot chosen by the code under /repo for every cache key (probed through the hooks) *)\n"
            "EXTENDS Integers, TLC\nFTTab == %s\nSTTab == %s\n====\n" % (fl, sl))


def cache_events(hooks, strict=True):
    """strict: the events come from ONE cache instance, so hit must equal 'slot seen before'"""
    out = []
    for h in hooks:
        if h.get("ev") != "cache":
            continue
        k = h["key"]
        if h["cache"] == "face":
            t, r, s = k
            model = t + ((TODAY["SqOff"] if s else TODAY["RefOff"]) if r else 0)
            # squashing only matters for reflected triangles: the requested VALUE is (t, r, r and s)
            out.append({"ev": "cache", "cache": "face", "key": "%d,%s,%s" % (t, r, bool(r and s)), "slot": str(h["slot"]), "hit": bool(h["hit"]), "modelslot": str(model), "strict": strict})
        elif h["cache"] == "spherical":
            t, f, r = k
            model = TODAY["FaceMul"] * f + t + (TODAY["STRefOff"] if r else 0)
            out.append({"ev": "cache", "cache": "spherical", "key": "%d,%d,%s" % (f, t, r), "slot": str(h["slot"]), "hit": bool(h["hit"]), "modelslot": str(model), "strict": strict})
        else:
            out.append({"ev": "cache", "cache": "constants", "key": calls.digest(k), "slot": calls.digest(h.get("slot", k)), "hit": bool(h["hit"]), "modelslot": "", "strict": strict})
    return out


def history_events(descs, fr, rng, scribble=True):
    """execute a history in THIS (warm) process, each call also in a fresh fork; returns trace events"""
    params.import_a5()
    from a5 import _verif
    freshres = fr.run(descs)
    ev = []
    for desc, fx in zip(descs, freshres):
        _verif.drain()
        x = calls.execute(desc)
        ev += cache_events(_verif.drain())
        if fx["bits"].startswith("forkfail"):
            raise core.MachineryError("fresh fork failed: %r" % fx)
        ev.append({"ev": "call", "desc": desc, "call": calls.canon(desc), "bits": x["bits"], "fresh": fx["bits"], "argsame": x["argsame"],
                   "noalias": x["noalias"], "preview": x["preview"][:60], "freshpreview": fx["preview"][:60]})
        ret = x["ret"]
        if scribble and isinstance(ret, list):
            ret.reverse()
            del ret[0:1]
            ret.append(("scribble",))          # appended last, so that even an empty list comes back changed
    return ev


def hx(x):
    return float(x).hex()


def make_histories(p, rng, quick):
    """H1 random interleavings of all public functions; H2 approach to exact ties between two face
    centres; H3 cache sweeps over all faces / triangles incl. reflected ones"""
    ser, org, utils = cells.api()
    import a5
    H = []
    n1 = 260 if quick else 5000

    def rcell(rmax=29):
        r = rng.randrange(0, rmax + 1)
        return cells.real_id({"r": r, "f": rng.randrange(p["NF"]), "s": rng.randrange(p["NS"]) if r >= 1 else 0, "d": [rng.randrange(4) for _ in range(max(0, r - 1))]})

    def rpoint():
        band = rng.random()
        lat = rng.uniform(-90, 90) if band < 0.7 else rng.choice([-1, 1]) * rng.uniform(85, 90)
        return rng.uniform(-200, 200), lat
    optshapes = [None, {}, {"closed_ring": False}, {"segments": 3}, {"segments": "auto", "closed_ring": True}, {"segments": None}, {"closed_ring": False, "segments": 1},
                 {"segments": 1}, {"segments": 1, "closed_ring": True}]
    h1 = []
    pool = []
    for _ in range(n1):
        k = rng.randrange(14)
        if k == 0:
            lon, lat = rpoint()
            d = ["lonlat_to_cell", hx(lon), hx(lat), rng.randrange(0, 30)]
        elif k == 1:
            d = ["cell_to_lonlat", "%016x" % rcell()]
        elif k == 2:
            c = rcell()
            o = rng.choice(optshapes)
            if o and o.get("segments") == 3 and ser.get_resolution(c) < 2:
                o = {"segments": 2}
            if ser.get_resolution(c) < 3 and (o is None or o.get("segments") in ("auto", None)):
                o = {"segments": 2, "closed_ring": rng.random() < 0.5}
            d = ["cell_to_boundary", "%016x" % c, o]
        elif k == 3:
            c = rcell()
            d = ["cell_to_parent", "%016x" % c, rng.choice([None, rng.randrange(-1, ser.get_resolution(c) + 2)])]
        elif k == 4:
            c = rcell(27)
            d = ["cell_to_children", "%016x" % c, rng.choice([None, ser.get_resolution(c) + rng.randrange(-1, 3)])]
        elif k == 5:
            d = ["get_resolution", "%016x" % rcell()]
        elif k == 6:
            d = ["get_res0_cells"]
        elif k == 7:
            d = [rng.choice(["get_num_cells", "cell_area", "get_num_cells", "cell_area", "get_num_cells_float", "cell_area_float"]), rng.randrange(-1, 31)]
        elif k == 8:
            c = rcell(28)
            kids = ser.cell_to_children(c)
            extra = [rcell(3) for _ in range(rng.randrange(0, 3))]
            lst = kids[: rng.randrange(2, len(kids) + 1)] + extra
            rng.shuffle(lst)
            d = ["compact", ["%016x" % x for x in lst]]
        elif k == 9:
            c = rcell(26)
            r = ser.get_resolution(c)
            d = ["uncompact", ["%016x" % c, "%016x" % c] + (["%016x" % ser.cell_to_parent(c)] if r > 0 else []), r + rng.randrange(0, 3)]
            if rng.random() < 0.25 and r > 1:
                # a request that must raise half-way through its argument (a later member is finer than the target)
                d = ["uncompact", ["%016x" % ser.cell_to_parent(c, r - 1), "%016x" % c], r - 1]
        elif k == 10:
            d = ["u64_to_hex", "%016x" % rng.getrandbits(64)]
        elif k == 11:
            d = ["hex_to_u64", ("%x" % rng.getrandbits(rng.randrange(1, 65))).upper() if rng.random() < 0.5 else "%016x" % rcell()]
        elif k == 12:
            lon, lat = rpoint()
            d = ["lonlat_to_cell_list", hx(lon), hx(lat), rng.randrange(0, 30)]
        else:
            d = rng.choice(pool) if pool else ["get_res0_cells"]        # an earlier call again
        h1.append(d)
        pool.append(d)
    # the world cell through every function that takes a cell (its results are lists / tuples too)
    for rep in range(3):
        for d0 in (["cell_to_boundary", "0000000000000000", None], ["cell_to_boundary", "0000000000000000", {"segments": 2}],
                   ["cell_to_lonlat", "0000000000000000"], ["cell_to_children", "0000000000000000", None], ["cell_to_children", "0000000000000000", 1],
                   ["cell_to_parent", "0000000000000000", -1], ["compact", ["0000000000000000"]], ["uncompact", ["0000000000000000"], 0],
                   ["get_resolution", "0000000000000000"]):
            h1.insert(rng.randrange(len(h1) + 1), d0)
    # every resolution under both spellings of the number (3 and 3.0 are equal as dictionary keys), in both orders,
    # followed by a call that consumes the counts
    for r in range(-1, 31):
        first, second = ("_float", "") if r % 2 else ("", "_float")
        h1.append(["cell_area" + first, r])
        h1.append(["get_num_cells" + second, r])
        h1.append(["get_num_cells" + first, r])
        h1.append(["cell_area" + second, r])
        if 1 <= r <= 5:
            seg = cells.real_id({"r": 1, "f": r % p["NF"], "s": r % p["NS"], "d": []})
            h1.append(["uncompact", ["%016x" % seg], r])
    H.append(("H1", h1))
    # H2: meridians lon = 18 k - 93 are mirror planes of the dodecahedron frame: points on them can be
    # bit-for-bit equidistant from two face centres.  Approach from either side, then ask the exact point.
    h2 = []
    lats = [0.0, 11.0, 20.0, 26.5, 31.7, 52.6, -11.0, -26.5, -52.6, 58.3, -58.3] if quick else [x * 0.5 for x in range(-178, 179)]
    for k in range(0, 20):
        lon = 18.0 * k - 93.0
        if lon > 180:
            lon -= 360
        for lat in (rng.sample(lats, 4) if quick else rng.sample(lats, 40)):
            for r in rng.sample([0, 1, 2, 5, 9], 2):
                side = rng.choice([-1, 1])
                h2.append(["lonlat_to_cell", hx(lon + side * 9.0), hx(lat + rng.uniform(-3, 3)), 5])
                h2.append(["lonlat_to_cell", hx(lon), hx(lat), r])
                h2.append(["lonlat_to_cell", hx(lon - side * 9.0), hx(lat + rng.uniform(-3, 3)), 5])
                h2.append(["lonlat_to_cell", hx(lon), hx(lat), r])
    H.append(("H2", h2))
    # H3: every face / segment / coarse cell in random order, both directions of the projection
    h3 = []
    cs = []
    for r in (0, 1, 2) if quick else (0, 1, 2, 3):
        cs += ser.cell_to_children(0, r)
    rng.shuffle(cs)
    for c in cs:
        h3.append(["cell_to_lonlat", "%016x" % c])
        if rng.random() < (0.3 if quick else 1.0):
            h3.append(["cell_to_boundary", "%016x" % c, {"segments": 2}])
        if rng.random() < (0.5 if quick else 1.0):
            h3.append(["cell_to_boundary", "%016x" % c, rng.choice([{"segments": 1}, {"segments": 1, "closed_ring": False}, {"segments": 1, "closed_ring": True}])])
    for (lon, lat) in geo.frame_seeds(rng)[:: (9 if quick else 2)]:
        h3.append(["lonlat_to_cell", hx(lon), hx(lat), rng.choice([2, 3, 6, 11, 19, 29])])
    H.append(("H3", h3))
    return H


def run(v):
    quick = core.tier() == "quick"
    rng = random.Random(core.seed() + 17)
    d = core.workdir("C17")
    p = params.stage(d)
    params.import_a5()
    from a5 import _verif
    from a5.projections.dodecahedron import DodecahedronProjection
    # ---- design level: all 2-call histories over the cache keys, with the slot tables read from the code
    ftab, stab = probe_slots()
    follows = fit(ftab, stab)
    open(d + "/A5CacheSlots.tla", "w").write(slots_module(ftab, stab))
    open(d + "/MC_Caches_run.tla", "w").write(
        "---- MODULE MC_Caches_run ----\nEXTENDS A5CacheSlots\nVARIABLES ft, st, calls, last\n"
        "M == INSTANCE A5Caches WITH NFaces <- 12, NTri <- 10, RefOff <- 10, SqOff <- 20, FaceMul <- 10, STRefOff <- 120, MaxCalls <- 2\n"
        "====\n")
    # the arithmetic model (today's constants) - exhaustive over all histories of two calls
    res = core.run_tlc(d, "A5Caches", cfg="MC_Caches.cfg", timeout=900, args=["-coverage", "1"])
    core.require_clean(res, "MC_Caches", allow_violation=True)
    v.add_tlc("MC_Caches", res, dict(TODAY, MaxCalls=2, probed_slots_follow_model=follows))
    if res.violated:
        v.drift.append({"what": "A5Caches invariant violated with today's slot arithmetic", "invariants": res.violated})
    if not follows:
        v.drift.append({"what": "the slots probed from the code do not follow the slot arithmetic transcribed in A5Caches"})
    # collision search on the PROBED tables (pure finite check of the same CacheSound law)
    coll = []
    inv = {}
    for (t, r, s), slot in ftab.items():
        val = (t, r, r and s)
        if slot in inv and inv[slot] != val:
            coll.append(("face", inv[slot], val, slot))
        inv.setdefault(slot, val)
    inv = {}
    for key, slot in stab.items():
        if slot in inv and inv[slot] != key:
            coll.append(("spherical", inv[slot], key, slot))
        inv.setdefault(slot, key)
    v.cov["slot_collisions_in_probed_tables"] = len(coll)
    events = []
    # ---- B1: TLC's 2-call histories replayed on fresh projection instances, compared with cold results
    keys = [(f, t, r) for f in range(12) for t in range(10) for r in (False, True)]
    pairs = [(a, b) for a in keys for b in keys]
    rng.shuffle(pairs)
    # histories the model (or the probed tables) singles out go first
    front = []
    for kind, k1, k2, slot in coll:
        if kind == "spherical":
            front += [(k1, k2), (k2, k1)]
        else:
            for f in (0, 7):
                front += [((f, k1[0], k1[1]), (f, k2[0], k2[1])), ((f, k2[0], k2[1]), (f, k1[0], k1[1]))]
    pairs = front + pairs[: (3000 if quick else len(pairs))]
    cold = {}

    def project(inst, key, direction):
        f, t, r = key
        fp = face_point(t, r)
        if direction == "inv":
            return inst.inverse(fp, f)
        return inst.forward(cold[("sph", key)], f)
    for key in keys:
        cold[("sph", key)] = DodecahedronProjection().inverse(face_point(key[1], key[2]), key[0])
        cold[("inv", key)] = calls.digest(DodecahedronProjection().inverse(face_point(key[1], key[2]), key[0]))
        cold[("fwd", key)] = calls.digest(DodecahedronProjection().forward(cold[("sph", key)], key[0]))
    n_b1 = 0
    for (k1, k2) in pairs:
        inst = DodecahedronProjection()
        events.append({"ev": "reset"})
        for key in (k1, k2):
            dirn = "inv" if (n_b1 + key[1]) % 2 == 0 else "fwd"
            _verif.drain()
            try:
                bits = calls.digest(project(inst, key, dirn))
            except Exception as ex:
                bits = "exc:" + type(ex).__name__
            events += cache_events(_verif.drain())
            events.append({"ev": "call", "call": "%s%r#%d" % (dirn, key, id(key) % 1), "bits": bits, "fresh": cold[(dirn, key)], "argsame": True, "noalias": True,
                           "preview": "%s %r" % (dirn, key), "freshpreview": ""})
        n_b1 += 1
    # ---- B2: histories of public API calls, each call also in a fresh fork of a pristine template
    fr = fresh.Fresh()
    try:
        hist = make_histories(p, rng, quick)
        n_calls = 0
        for name, descs in hist:
            if name == "H1":
                events.append({"ev": "reset"})        # B2 runs on the library's own (so far untouched) projection singleton
            ev = history_events(descs, fr, rng)
            n_calls += len(descs)
            events += ev
    finally:
        fr.close()
    # the repository's own tests as a driver: the cache lookups of one whole pytest process are one more history
    summary, tev = testtraces.record(d, ["tests/projections/test_dodecahedron.py", "tests/core/test_compact.py", "tests/core/test_tiling.py", "tests/core/test_serialization.py"] if quick else ["tests"])
    tcache = testtraces.cache_trace(tev)
    v.cov["repo_test_run"] = summary
    v.cov["cache_lookups_recorded_from_repo_tests"] = len(tcache) - 1
    events += tcache
    # the trace is validated in chunks cut at "reset" lines (no state crosses a reset); chunks run in parallel,
    # each TLC single-threaded because the specification is a line-by-line chain
    cuts = [0]
    for k, e in enumerate(events):
        if e["ev"] == "reset" and k - cuts[-1] >= 40000:
            cuts.append(k)
    cuts.append(len(events))
    import concurrent.futures as cf

    def part(c):
        lo, hi = cuts[c], cuts[c + 1]
        sub = d + "/pure_%d" % c
        os.makedirs(sub + "/tmp", exist_ok=True)
        for fn in ("Trace_Pure.tla", "Trace_Pure.cfg"):
            import shutil
            shutil.copy(d + "/" + fn, sub + "/" + fn)
        core.write_ndjson(sub + "/Trace_Pure.ndjson", [{k: x for k, x in e.items() if k != "desc"} for e in events[lo:hi]])
        r = core.run_tlc(sub, "Trace_Pure", env={"TRACE_FILE": sub + "/Trace_Pure.ndjson"}, timeout=3000, workers=1, heap="6g")
        core.require_clean(r, "Trace_Pure")
        if r.distinct != hi - lo + 1:
            raise core.MachineryError("Trace_Pure consumed %d of %d lines" % (r.distinct - 1, hi - lo))
        return lo, r
    with cf.ThreadPoolExecutor(max_workers=6) as ex:
        parts = list(ex.map(part, range(len(cuts) - 1)))
    tres = None
    bad_lines = []
    for lo, r in parts:
        for l in r.prints("BAD"):
            val = core.parse_tla(l)
            bad_lines.append((lo + val[1] - 1, val[2]))
        if tres is None:
            tres = r
        else:
            tres.generated += r.generated
            tres.distinct += r.distinct
    v.add_tlc("Trace_Pure", tres, {"events": len(events)})
    v.traces += n_b1 + len(hist)
    v.cov["b1_two_call_histories_replayed"] = n_b1
    v.cov["b2_histories"] = {name: len(ds) for name, ds in hist}
    v.cov["api_calls_compared_with_fresh_process"] = n_calls
    v.cov["cache_events_judged"] = sum(1 for e in events if e["ev"] == "cache")
    calls_only = [e for e in events if e["ev"] == "call"]
    for e in (calls_only[0], calls_only[-1], calls_only[len(calls_only) // 2]):
        v.sample({"call": e["call"][:100], "bits": e["bits"], "fresh": e["fresh"]})
    for (i, clauses) in sorted(bad_lines):
        e = events[i]
        real = [c for c in clauses if c.startswith("C17")]
        det = {"line": i, "clauses": clauses, "event": {k: e.get(k) for k in ("ev", "cache", "key", "slot", "hit", "call", "bits", "fresh", "preview", "freshpreview", "argsame") if k in e}}
        if real:
            # the history that led here (calls only), for the replay file
            j = i
            while j > 0 and events[j]["ev"] != "reset":
                j -= 1
            descs = [x["desc"] for x in events[j:i + 1] if x["ev"] == "call" and "desc" in x]
            v.violation(real[0], det, {"check": "C17", "history": descs}, {"clause": real[0]})
        else:
            v.drift.append(det)
    v.exhaustive = False
    v.assumptions += ["a fresh fork of a template process that imported a5 but never called it stands for 'a fresh interpreter'",
                      "results are compared as SHA-256 digests of a canonical text in which floats are written with float.hex()"]
    return "TLC (A5Caches) explores all 57,841 histories of up to two projection calls over the 240 cache keys and checks CacheSound/CallSound; %d of them are replayed on fresh DodecahedronProjection instances; three API histories (random interleavings of all public functions, approaches to exact face-centre ties on the mirror meridians, cache sweeps over all faces) are executed warm and call-by-call in fresh forks; Trace_Pure validates the recorded history (cache hits only on the same key, same call => same bits, warm == fresh, arguments untouched, returned lists scribbled on)" % n_b1


def replay(v, obj):
    """re-execute the recorded history (calls since the last reset up to the failing one) in this
    process, every call also in a fresh fork, and validate it with Trace_Pure"""
    if not obj.get("history"):
        raise core.MachineryError("this violation was found on a projection-level history; rerun ./check C17")
    d = core.workdir("C17_replay")
    params.stage(d)
    rng = random.Random(0)
    fr = fresh.Fresh()
    try:
        events = history_events(obj["history"], fr, rng)
    finally:
        fr.close()
    core.write_ndjson(d + "/Trace_Pure.ndjson", [{k: x for k, x in e.items() if k != "desc"} for e in events])
    tres = core.run_tlc(d, "Trace_Pure", env={"TRACE_FILE": d + "/Trace_Pure.ndjson"}, timeout=600, workers=1)
    core.require_clean(tres, "Trace_Pure")
    v.add_tlc("Trace_Pure", tres)
    v.traces += 1
    v.sample({"calls": len(obj["history"])})
    for l in tres.prints("BAD"):
        val = core.parse_tla(l)
        real = [c for c in val[2] if c.startswith("C17")]
        if real:
            e = events[val[1] - 1]
            v.violation(real[0], {"clauses": val[2], "call": e.get("call")}, obj, {"clause": real[0]})
    return "replay of one recorded history"
