"""C19 - hex text form round-trips for every 64-bit value."""
import random
from . import core, params, cells

PADS = (16, 17, 20, 32)


def hex_event(n):
    params.import_a5()
    import a5
    e = {"ev": "hex", "n": core.nibs(n), "ok": False, "txt": [], "back": [], "upper": [], "pads": [], "exc": ""}
    try:
        t = a5.u64_to_hex(n)
        if not isinstance(t, str) or not t or any(ord(ch) > 127 for ch in t) or len(t) > 40:
            e["exc"] = "u64_to_hex returned %r" % (t,)
            return e
        e["txt"] = [ord(ch) for ch in t]
        e["ok"] = True
        e["back"] = _parse(a5, t)
    except Exception as ex:
        e["exc"] = type(ex).__name__ + ": " + str(ex)
    canon = "%x" % n
    e["upper"] = _parse(a5, canon.upper())
    e["pads"] = [_parse(a5, canon.zfill(w)) for w in PADS] + [_parse(a5, "0" + canon), _parse(a5, canon.upper().zfill(18))]
    return e


def _parse(a5, s):
    try:
        v = a5.hex_to_u64(s)
        if not isinstance(v, int) or v < 0 or v >= 2 ** 64:
            return [99]
        return core.nibs(v)
    except Exception:
        return [98]


def run(v):
    quick = core.tier() == "quick"
    rng = random.Random(core.seed() + 19)
    d = core.workdir("C19")
    p = params.stage(d)
    stride = 16 if quick else 1
    cfg = open(d + "/MC_Hex.cfg").read().replace("Stride = 16", "Stride = %d" % stride)
    open(d + "/MC_Hex.cfg", "w").write(cfg)
    res = core.run_tlc(d, "MC_Hex", args=["-dump", d + "/hex", "-coverage", "1"], timeout=1500)
    core.require_clean(res, "MC_Hex", allow_violation=True)
    v.add_tlc("MC_Hex", res, {"Stride": stride})
    if res.violated:
        v.drift.append({"what": "MC_Hex invariant violated in the model", "invariants": res.violated})
    values = []
    for st in core.parse_dump(d + "/hex.dump"):
        fill, lane, val = st["fill"], st["lane"], st["v"]
        n = 0
        for k in range(4):
            n = (n << 16) | (val if k == lane else (0xffff if fill else 0))
        values.append(n)
    if len(values) != res.distinct:
        raise core.MachineryError("hex dump: %d values for %d states" % (len(values), res.distinct))
    n_b1 = len(values)
    # single-bit, boundary, valid-id shapes and random values
    extra = [0, 1, 2 ** 64 - 1, 2 ** 63, 2 ** 63 - 1, 2 ** 32, 2 ** 32 - 1, 2 ** 31, 9, 10, 15, 16, 255, 256]
    extra += [1 << k for k in range(64)] + [(1 << k) - 1 for k in range(1, 65)] + [(2 ** 64 - 1) ^ (1 << k) for k in range(64)]
    ser, org, utils = cells.api()
    for r in range(0, 4):
        extra += ser.cell_to_children(0, r)
    for r in range(4, p["MaxRes"]):
        for _ in range(20):
            c = {"r": r, "f": rng.randrange(p["NF"]), "s": rng.randrange(p["NS"]), "d": [rng.randrange(4) for _ in range(r - 1)]}
            extra.append(cells.real_id(c))
    extra += [rng.getrandbits(64) for _ in range(2000 if quick else 50000)]
    extra += [rng.getrandbits(rng.randrange(1, 65)) for _ in range(2000 if quick else 50000)]
    events = [hex_event(n) for n in values + extra]
    tres, bad = core.judge(d, "Trace_Hex", events, timeout=2400)
    v.add_tlc("Trace_Hex", tres, {"events": len(events)})
    v.traces += len(events)
    v.cov["b1_values_from_tlc"] = n_b1
    v.cov["b2_extra_values"] = len(extra)
    for e in (events[1], events[n_b1 // 2], events[-1]):
        v.sample({"n": "%016x" % core.unnibs(e["n"]), "txt": "".join(map(chr, e["txt"]))})
    for i, clauses in sorted(bad.items()):
        e = events[i]
        if any(c.startswith("wellformed") for c in clauses):
            raise core.MachineryError("malformed event %r" % e)
        n = core.unnibs(e["n"])
        v.violation(clauses[0], {"n": hex(n), "txt": "".join(map(chr, e["txt"])), "clauses": clauses, "exc": e["exc"]},
                    {"check": "C19", "n": hex(n)}, {"clause": clauses[0]})
    v.exhaustive = (stride == 1)
    if stride == 1:
        v.cov["exhaustive_space"] = "all 65,536 values of each 16-bit lane with the other lanes all-zero / all-one (524,288 values)"
    return "TLC (MC_Hex) generates the lane/fill/counter values with stride %d and checks the text-form design; every value plus single-bit, boundary, cell-id and random values goes through the real u64_to_hex/hex_to_u64 (lower, upper, zero-padded to 16/17/18/20/32 digits) and Trace_Hex judges the clauses; distinct values counted" % stride


def replay(v, obj):
    n = int(obj["n"], 16)
    d = core.workdir("C19_replay")
    params.stage(d)
    ev = hex_event(n)
    tres, bad = core.judge(d, "Trace_Hex", [ev], timeout=300)
    v.add_tlc("Trace_Hex", tres)
    v.traces += 1
    v.sample(ev)
    for i, clauses in bad.items():
        v.violation(clauses[0], {"n": hex(n), "clauses": clauses}, {"check": "C19", "n": hex(n)}, {"clause": clauses[0]})
    return "replay of one value"
