"""Schedule control for C16, executed inside forked children of a pristine template process.

  record(A, warm)              shared-access program of one call (proxies on every module-level mutable
                               container / singleton attribute of a5.*), for the A5Threads model
  dense(A, B, warm)            A runs under a line tracer; B runs to completion at EVERY line event of A
  single(A, B, k, warm, gran)  B runs to completion exactly at A's k-th line event (gran="line") or
                               k-th shared access (gran="access")
  Results are digests of the returned bits; any exception is part of the result."""
import sys, types
from . import calls

_A5 = None


def _mods():
    return [m for n, m in list(sys.modules.items()) if (n == "a5" or n.startswith("a5.")) and m is not None and n != "a5._verif"]


# ------------------------------------------------------------------ proxies
class _State:
    lines = 0           # line events of a5 code seen so far (while recording)
    log = None          # list of (op, loc, digest, line) while recording
    hook = None         # callable invoked before each shared access (access-level preemption)
    busy = False


def _hit(op, name, obj):
    if _State.busy:
        return
    if _State.hook is not None:
        _State.busy = True
        try:
            _State.hook()
        finally:
            _State.busy = False
    if _State.log is not None:
        _State.busy = True
        try:
            _State.log.append((op, name, calls.digest(_plain(obj))[:8], _State.lines))
        finally:
            _State.busy = False


def _plain(o):
    if isinstance(o, list):
        return [_plain(x) for x in list.__iter__(o)]
    if isinstance(o, dict):
        return {str(k): _plain(v) for k, v in dict.items(o)}
    if isinstance(o, tuple):
        return tuple(_plain(x) for x in o)
    if isinstance(o, (int, float, str, bool)) or o is None:
        return o
    return type(o).__name__


def _el(name, i, v):
    return name + "[" + str(i) + "]", v


class TList(list):
    """element-level access log: loc = name[index], digest = the element"""
    def __getitem__(s, i):
        v = list.__getitem__(s, i)
        if isinstance(i, int):
            _hit("R", s._n + "[%d]" % (i if i >= 0 else list.__len__(s) + i), v)
        else:
            _hit("R", s._n + "[*]", s)
        return v
    def __iter__(s): _hit("R", s._n + "[*]", s); return list.__iter__(s)
    def __len__(s): return list.__len__(s)
    def __setitem__(s, i, v):
        r = list.__setitem__(s, i, v)
        _hit("W", s._n + ("[%d]" % (i if i >= 0 else list.__len__(s) + i) if isinstance(i, int) else "[*]"), v)
        return r
    def append(s, v): r = list.append(s, v); _hit("W", s._n + "[%d]" % (list.__len__(s) - 1), v); return r
    def extend(s, v): r = list.extend(s, v); _hit("W", s._n + "[*]", s); return r
    def sort(s, *a, **k): r = list.sort(s, *a, **k); _hit("W", s._n + "[*]", s); return r
    def reverse(s): r = list.reverse(s); _hit("W", s._n + "[*]", s); return r
    def remove(s, v): r = list.remove(s, v); _hit("W", s._n + "[*]", s); return r
    def insert(s, i, v): r = list.insert(s, i, v); _hit("W", s._n + "[*]", s); return r
    def pop(s, *a): r = list.pop(s, *a); _hit("W", s._n + "[*]", s); return r
    def clear(s): r = list.clear(s); _hit("W", s._n + "[*]", s); return r
    def __delitem__(s, i): r = list.__delitem__(s, i); _hit("W", s._n + "[*]", s); return r
    def __iadd__(s, o): list.extend(s, o); _hit("W", s._n + "[*]", s); return s
    def index(s, *a): _hit("R", s._n + "[*]", s); return list.index(s, *a)
    def count(s, v): _hit("R", s._n + "[*]", s); return list.count(s, v)
    def __contains__(s, v): _hit("R", s._n + "[*]", s); return list.__contains__(s, v)


class TDict(dict):
    """key-level access log: loc = name[digest of key]"""
    def _k(s, k): return s._n + "[" + calls.digest(_plain(k))[:6] + "]"
    def __getitem__(s, k): v = dict.__getitem__(s, k); _hit("R", s._k(k), v); return v
    def get(s, k, d=None): v = dict.get(s, k, d); _hit("R", s._k(k), v); return v
    def __contains__(s, k): r = dict.__contains__(s, k); _hit("R", s._k(k), r); return r
    def __setitem__(s, k, v): r = dict.__setitem__(s, k, v); _hit("W", s._k(k), v); return r
    def setdefault(s, k, d=None): v = dict.setdefault(s, k, d); _hit("W", s._k(k), v); return v
    def pop(s, k, *a): v = dict.pop(s, k, *a); _hit("E", s._k(k), None); return v
    def popitem(s): v = dict.popitem(s); _hit("E", s._n + "[*]", s); return v
    def __delitem__(s, k): r = dict.__delitem__(s, k); _hit("E", s._k(k), None); return r
    def clear(s): r = dict.clear(s); _hit("E", s._n + "[*]", s); return r
    def update(s, *a, **k): r = dict.update(s, *a, **k); _hit("W", s._n + "[*]", s); return r
    def __iter__(s): _hit("R", s._n + "[*]", s); return dict.__iter__(s)
    def items(s): _hit("R", s._n + "[*]", s); return dict.items(s)
    def values(s): _hit("R", s._n + "[*]", s); return dict.values(s)


def _wrap(o, name):
    if type(o) is list:
        t = TList(o)
    elif type(o) is dict:
        t = TDict(o)
    else:
        return None
    t._n = name
    return t


def install_proxies():
    """replace every module-level list/dict of a5.* and every list/dict attribute of module-level
    instances of a5 classes (singletons) by a recording proxy; returns the location names"""
    names = []
    seen = {}
    for m in _mods():
        for attr, val in list(vars(m).items()):
            if attr.startswith("__"):
                continue
            if type(val) in (list, dict):
                if id(val) not in seen:
                    p = _wrap(val, m.__name__ + "." + attr)
                    seen[id(val)] = p
                    names.append(p._n)
                setattr(m, attr, seen[id(val)])
            elif getattr(type(val), "__module__", "").startswith("a5.") and not isinstance(val, (type, types.FunctionType)):
                _wrap_instance(val, m.__name__ + "." + attr, seen, names, 0)
    return names


_TRACED = {}


def _trace_attrs(obj, name):
    """data attributes of a shared instance become shared locations too (reads and rebinding)"""
    cls = type(obj)
    if getattr(cls, "_a5_traced", False):
        return
    if cls not in _TRACED:
        def ga(self, attr):
            v = object.__getattribute__(self, attr)
            if attr[:2] != "__" and attr[:4] != "_a5_":
                d = object.__getattribute__(self, "__dict__")
                if attr in d and type(v) not in (TList, TDict) and not callable(v):
                    _hit("R", d.get("_a5_name", "?") + "." + attr, v)
            return v

        def sa(self, attr, value):
            object.__setattr__(self, attr, value)
            if attr[:4] != "_a5_":
                _hit("W", object.__getattribute__(self, "__dict__").get("_a5_name", "?") + "." + attr, value)
        try:
            _TRACED[cls] = type(cls.__name__ + "Traced", (cls,), {"__getattribute__": ga, "__setattr__": sa, "_a5_traced": True})
        except TypeError:
            _TRACED[cls] = None
    sub = _TRACED[cls]
    if sub is None:
        return
    try:
        object.__setattr__(obj, "_a5_name", name)
        obj.__class__ = sub
    except Exception:
        pass


def _wrap_instance(obj, name, seen, names, depth):
    if depth > 3 or id(obj) in seen:
        return
    seen[id(obj)] = obj
    d = getattr(obj, "__dict__", None)
    if not isinstance(d, dict):
        return
    _trace_attrs(obj, name)
    for attr, val in list(d.items()):
        if type(val) in (list, dict):
            if id(val) not in seen:
                p = _wrap(val, name + "." + attr)
                seen[id(val)] = p
                names.append(p._n)
            try:
                setattr(obj, attr, seen[id(val)])
            except Exception:
                pass
        elif getattr(type(val), "__module__", "").startswith("a5.") and not isinstance(val, (type, types.FunctionType)):
            _wrap_instance(val, name + "." + attr, seen, names, depth + 1)


def _globals_snapshot():
    """identity of every module-level non-code object of a5.* (a `global x; x = ...` inside a call shows up here)"""
    snap = {}
    for m in _mods():
        for attr, val in vars(m).items():
            if attr.startswith("__") or isinstance(val, (types.ModuleType, types.FunctionType, type)) or callable(val):
                continue
            snap[m.__name__ + "." + attr] = (id(val), repr(val)[:40] if isinstance(val, (int, float, str, bool, tuple, type(None))) else "")
    return snap


# ------------------------------------------------------------------ experiments
def _run(desc):
    x = calls.execute(desc)
    return x["bits"], x["preview"][:80]


def _warmup(A, B, warm):
    if warm:
        _run(A)
        _run(B)


def record(A, warm):
    import a5  # noqa
    install_proxies()
    if warm:
        _run(A)
    _State.log = []
    _State.lines = 0
    before = _globals_snapshot()

    def tracer(frame, event, arg):
        if not _is_a5(frame):
            return None
        if event == "line":
            _State.lines += 1
        return tracer
    sys.settrace(tracer)
    try:
        bits = _run(A)
    finally:
        sys.settrace(None)
    log, _State.log = _State.log, None
    # compress runs of identical events (keep the first line index)
    out = []
    for ev in log:
        if not out or out[-1][:3] != list(ev[:3]):
            out.append(list(ev))
    after = _globals_snapshot()
    rebinds = sorted(k for k in after if k in before and after[k] != before[k])
    return {"bits": bits[0], "program": out[:4000], "truncated": len(out) > 4000, "lines": _State.lines, "rebinds": rebinds}


def _is_a5(frame):
    fn = frame.f_code.co_filename
    return "/a5/" in fn and not fn.endswith("_verif.py")


def dense(A, B, warm, every=1):
    """B at every `every`-th line event of A"""
    import a5  # noqa
    _warmup(A, B, warm)
    st = {"in": False, "n": 0, "bres": {}, "bexc": 0, "seen": 0}

    def tracer(frame, event, arg):
        if not _is_a5(frame):
            return None
        if event == "line" and not st["in"]:
            st["seen"] += 1
            if st["seen"] % every:
                return tracer
            st["in"] = True
            sys.settrace(None)
            try:
                st["n"] += 1
                b = _run(B)
                st["bres"][b[0]] = st["bres"].get(b[0], 0) + 1
                if len(st["bres"]) > 1 and "first_split" not in st:
                    st["first_split"] = [st["n"], b[1]]
            finally:
                st["in"] = False
                sys.settrace(tracer)
        return tracer
    sys.settrace(tracer)
    try:
        a = _run(A)
    finally:
        sys.settrace(None)
    return {"a": a[0], "apreview": a[1], "lines": st["seen"], "injected": st["n"], "b": st["bres"], "first_split": st.get("first_split")}


def single(A, B, k, warm, gran):
    import a5  # noqa
    if gran == "access":
        install_proxies()
    _warmup(A, B, warm)
    st = {"in": False, "n": 0, "b": None}

    def fire():
        st["n"] += 1
        if st["n"] == k and st["b"] is None:
            st["b"] = _run(B)
    if gran == "access":
        _State.hook = fire
        try:
            a = _run(A)
        finally:
            _State.hook = None
    else:
        def tracer(frame, event, arg):
            if not _is_a5(frame):
                return None
            if event == "line" and not st["in"]:
                st["in"] = True
                sys.settrace(None)
                try:
                    fire()
                finally:
                    st["in"] = False
                    sys.settrace(tracer)
            return tracer
        sys.settrace(tracer)
        try:
            a = _run(A)
        finally:
            sys.settrace(None)
    return {"a": a[0], "apreview": a[1], "points": st["n"], "b": st["b"][0] if st["b"] else None, "bpreview": st["b"][1] if st["b"] else None}


def sweep(descs):
    """run a long history with the proxies on and report where a cache EVICTS (clear / pop / del on a shared
    dict): caches that only grow cannot take an entry away from a call that has just checked for it"""
    import a5  # noqa
    install_proxies()
    ev = []
    for n, dsc in enumerate(descs):
        _State.log = []
        _run(dsc)
        for e in _State.log:
            if e[0] == "E":
                ev.append([n, e[1]])
        _State.log = None
    return {"evictions": ev[:50]}


def single_after(prefix, A, B, k, gran):
    """like single(), after a prefix history has been executed in this process"""
    import a5  # noqa
    if gran == "access":
        install_proxies()
    for dsc in prefix:
        _run(dsc)
    return single(A, B, k, False, gran)


def seq_after(prefix, A):
    import a5  # noqa
    for dsc in prefix:
        _run(dsc)
    a = _run(A)
    return {"a": a[0], "apreview": a[1]}


def seq(A, warm_with):
    """sequential reference: A alone (optionally after another call warmed the caches)"""
    import a5  # noqa
    if warm_with:
        _run(warm_with)
    a = _run(A)
    return {"a": a[0], "apreview": a[1]}


def threads(descs, nthreads, rounds, interval):
    """real threads hammering the library; every result compared with the sequential digest"""
    import threading, random
    import a5  # noqa
    ref = {}
    for d in descs:
        ref[calls.canon(d)] = _run(d)[0]
    sys.setswitchinterval(interval)
    bad = []
    lock = threading.Lock()

    def worker(seed):
        rng = random.Random(seed)
        for _ in range(rounds):
            d = rng.choice(descs)
            try:
                b = _run(d)[0]
            except BaseException as ex:       # noqa
                b = "raised:" + type(ex).__name__
            if b != ref[calls.canon(d)]:
                with lock:
                    bad.append([calls.canon(d)[:100], b])
    ts = [threading.Thread(target=worker, args=(i,)) for i in range(nthreads)]
    for t in ts:
        t.start()
    for t in ts:
        t.join()
    return {"calls": nthreads * rounds, "bad": bad[:20], "nbad": len(bad)}
