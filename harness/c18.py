"""C18 - curve index <-> lattice position is a bijection for all orientations and levels."""
import math, random
from . import core, params

DQ = 10000


def floorform(x):
    n = math.floor(x)
    f = int(math.floor((x - n) * DQ))
    if f >= DQ:
        n, f = n + 1, 0
    return [int(n), f]


def S_of(d_lsb):
    v = 0
    for q in reversed(d_lsb):
        v = v * 4 + q
    return v


def lsb_digits(S, h):
    return [(S >> (2 * i)) & 3 for i in range(h)] + ([9] if S >> (2 * h) else [])


def centre_ij(hil, til, ct, S, h, o, want_vertices=False):
    a = hil.s_to_anchor(S, h, o)
    pent = til.get_pentagon_vertices(h, 0, a)
    cx, cy = pent.get_center()
    sc = float(2 ** h)
    ij = ct.face_to_ij((cx * sc, cy * sc))
    if want_vertices:
        vs = [ct.face_to_ij((x * sc, y * sc)) for (x, y) in pent.get_vertices()]
        return a, (ij[0], ij[1]), vs
    return a, (ij[0], ij[1])


def cell_event(d_lsb, o, cache):
    params.import_a5()
    from a5.core import hilbert as hil, tiling as til, coordinate_transforms as ct
    h = len(d_lsb)
    S = S_of(d_lsb)
    e = {"ev": "cell", "o": o, "h": h, "d": list(d_lsb), "ok": False, "exc": "", "k": -1, "off": [0, 0], "fl": [0, 0],
         "c": [[0, 0], [0, 0]], "back": [], "back2": [], "back3": [], "pc": [], "pv": []}
    try:
        a, ij, vs = centre_ij(hil, til, ct, S, h, o, True)
        e["pv"] = [[floorform(x), floorform(y)] for (x, y) in vs] if len(vs) <= 8 and all(abs(x) < 2 ** 30 and abs(y) < 2 ** 30 for x, y in vs) else []
        e["k"] = int(a.k)
        e["off"] = [int(a.offset[0]), int(a.offset[1])]
        if a.offset[0] != e["off"][0] or a.offset[1] != e["off"][1]:
            e["exc"] = "non-integer anchor offset"
            return e
        e["fl"] = [int(a.flips[0]), int(a.flips[1])]
        e["c"] = [floorform(ij[0]), floorform(ij[1])]
        if max(abs(e["c"][0][0]), abs(e["c"][1][0]), abs(e["off"][0]), abs(e["off"][1])) > 2 ** 29 + 4:
            e["exc"] = "lattice position outside the segment triangle by more than the triangle's size: %r" % (ij,)
            e["c"] = [[0, 0], [0, 0]]
            e["off"] = [0, 0]
            e["pv"] = []
            return e
        e["back"] = lsb_digits(hil.ij_to_s(ij, h, o), h)
        # the same lattice point handed over as a list, twice (a conversion must not consume its argument)
        lst = [ij[0], ij[1]]
        e["back2"] = lsb_digits(hil.ij_to_s(lst, h, o), h)
        e["back3"] = lsb_digits(hil.ij_to_s(lst, h, o), h)
        if h > 1:
            key = (o, tuple(d_lsb[1:]))
            if key not in cache:
                _, pij = centre_ij(hil, til, ct, S >> 2, h - 1, o)
                cache[key] = [floorform(pij[0]), floorform(pij[1])]
                if len(cache) > 200000:
                    cache.clear()
            e["pc"] = cache[key]
        e["ok"] = True
    except Exception as ex:
        e["exc"] = type(ex).__name__ + ": " + str(ex)[:80]
    return e


def patterns(h, rng, nrand):
    """digit strings (MSB-first) of the pattern language at level h"""
    out = set()
    for dd in range(4):
        out.add((dd,) * h)
        out.add((dd,) + (0,) * (h - 1))
        out.add((dd,) + (3,) * (h - 1))
        out.add((0,) * (h - 1) + (dd,))
        out.add((3,) * (h - 1) + (dd,))
        for ee in range(4):
            out.add(tuple((dd if i % 2 == 0 else ee) for i in range(h)))
            out.add((dd, ee) + (0,) * (h - 2) if h >= 2 else (dd,))
            out.add((dd, ee) + (3,) * (h - 2) if h >= 2 else (dd,))
    for _ in range(nrand):
        out.add(tuple(rng.randrange(4) for _ in range(h)))
    return [list(reversed(x)) for x in sorted(out) if len(x) == h]


def run(v):
    quick = core.tier() == "quick"
    rng = random.Random(core.seed() + 18)
    d = core.workdir("C18")
    p = params.stage(d)
    maxlevel = 6 if quick else 7
    cfg = open(d + "/MC_Hilbert.cfg").read().replace("MaxLevel = 6", "MaxLevel = %d" % maxlevel)
    open(d + "/MC_Hilbert.cfg", "w").write(cfg)
    res = core.run_tlc(d, "MC_Hilbert", args=["-dump", d + "/hil"], timeout=2400)
    core.require_clean(res, "MC_Hilbert", allow_violation=True)
    v.add_tlc("MC_Hilbert", res, {"MaxLevel": maxlevel, "orientations": 6})
    if res.violated:
        v.drift.append({"what": "MC_Hilbert invariant violated in the model", "invariants": res.violated})
    states = [s for s in core.parse_dump(d + "/hil.dump") if s["d"]]
    cache = {}
    events = []
    tris = {}
    for st in states:
        e = cell_event(st["d"], st["o"], cache)
        events.append(e)
        if e["ok"]:
            c = e["c"]
            tris.setdefault((st["o"], len(st["d"])), []).append([c[0][0], c[1][0], 1 if c[0][1] + c[1][1] > DQ else 0])
    # the same index under the six orientations back to back, in varying order (a conversion must not remember
    # anything from the previous one)
    orients = ["uv", "vu", "uw", "wu", "vw", "wv"]
    for st in states:
        if st["o"] == "uv" and len(st["d"]) <= 4:
            for rep in range(2):
                order = orients[:]
                rng.shuffle(order)
                for o in order:
                    events.append(cell_event(st["d"], o, cache))
    n_b1 = len(events)
    for (o, h), lst in sorted(tris.items()):
        events.append({"ev": "level", "o": o, "h": h, "tris": lst})
    n_lvl = len(events) - n_b1
    # B2: levels the model checker does not enumerate
    for h in range(maxlevel + 1, 29):
        for o in ("uv", "vu", "uw", "wu", "vw", "wv"):
            for dl in patterns(h, rng, 30 if quick else 400):
                events.append(cell_event(dl, o, cache))
    tres, bad = core.judge(d, "Trace_Hilbert", events, timeout=2400)
    v.add_tlc("Trace_Hilbert", tres, {"events": len(events)})
    v.traces += len(events)
    v.cov["b1_states_replayed"] = n_b1
    v.cov["level_events(bijection onto unit triangles)"] = n_lvl
    v.cov["b2_pattern_and_random_cells_levels_%d_28" % (maxlevel + 1)] = len(events) - n_b1 - n_lvl
    for e in (events[5], events[n_b1 - 1], events[-1]):
        v.sample({k: e[k] for k in ("o", "h", "d", "k", "off", "fl", "c", "back")})
    for i, clauses in sorted(bad.items()):
        e = events[i]
        if any(c.startswith("wellformed") for c in clauses):
            raise core.MachineryError("malformed event %r" % {k: e.get(k) for k in ("ev", "o", "h", "d")})
        real = [c for c in clauses if c.startswith("C18")]
        det = {"o": e["o"], "h": e["h"], "clauses": clauses}
        if e["ev"] == "cell":
            det.update({"d_lsb_first": e["d"], "S": hex(S_of(e["d"])), "back": e["back"], "c": e["c"], "exc": e["exc"]})
        if real:
            v.violation(real[0], det, {"check": "C18", "o": e["o"], "d": e.get("d"), "h": e["h"], "ev": e["ev"]}, {"clause": real[0]})
        else:
            v.drift.append(det)
    v.exhaustive = True
    v.cov["exhaustive_space"] = "every index of every level 1..%d in all six orientations (TLC digit machine, all states replayed)" % maxlevel
    return "TLC (MC_Hilbert) enumerates every digit string to level %d in the six orientations and checks round trip / inside-triangle / prefix distance / sibling distinctness on the transcribed automaton; every state is replayed on the real s_to_anchor, pentagon centre and ij_to_s; per (orientation, level) the real centres' unit triangles are judged pairwise distinct and filling; pattern and random strings at levels up to 28; Trace_Hilbert judges" % maxlevel


def replay(v, obj):
    d = core.workdir("C18_replay")
    params.stage(d)
    if obj["ev"] != "cell":
        raise core.MachineryError("level events are replayed by rerunning ./check C18")
    e = cell_event(obj["d"], obj["o"], {})
    tres, bad = core.judge(d, "Trace_Hilbert", [e], timeout=300)
    v.add_tlc("Trace_Hilbert", tres)
    v.traces += 1
    v.sample(obj)
    for i, clauses in bad.items():
        real = [c for c in clauses if c.startswith("C18")]
        if real:
            v.violation(real[0], {"clauses": clauses, "event": e}, obj, {"clause": real[0]})
    return "replay of one index"
