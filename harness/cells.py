"""Translation between the specification's abstract cells and the real API's values."""
from . import core, params


def api():
    params.import_a5()
    from a5.core import serialization as ser, origin as org, utils
    return ser, org, utils


def digits_of(S, n):
    """S as n quaternary digits, most significant first (longer if S does not fit)."""
    out = []
    while S > 0:
        out.append(S & 3)
        S >>= 2
    while len(out) < n:
        out.append(0)
    return out[::-1]


def S_of(d):
    v = 0
    for q in d:
        v = v * 4 + q
    return v


def a5cell(c):
    """abstract cell dict {r,f,s,d} -> real A5Cell"""
    ser, org, utils = api()
    return utils.A5Cell(origin=org.origins[c["f"]], segment=c["s"], S=S_of(c["d"]), resolution=c["r"])


def abstract(cell):
    """real A5Cell -> abstract dict; ok=False if the fields are not those of a cell"""
    r = cell["resolution"]
    try:
        f = cell["origin"].id
        s = cell["segment"]
        S = cell["S"]
        n = r - 1 if r >= 2 else 0
        d = digits_of(S, n)
        ok = isinstance(S, int) and S >= 0 and len(d) == n and isinstance(s, int) and isinstance(f, int)
        return {"ok": bool(ok), "r": r, "f": f, "s": s, "d": d}
    except Exception as ex:  # noqa
        return {"ok": False, "r": -9, "f": -1, "s": -1, "d": []}


def real_id(c):
    ser, _, _ = api()
    return ser.serialize(a5cell(c))
