"""C08 - compact never changes the covered region."""
import random
from . import core, params, cells, compaction as cp, session, testtraces


def run(v, prefixes=("C08",), pid="C08"):
    quick = core.tier() == "quick"
    rng = random.Random(core.seed() * 31 + (8 if pid == "C08" else 9))
    d = core.workdir(pid)
    p = params.stage(d)
    ser, org, utils = cells.api()
    events = []
    unis = ("U1", "U2", "U3") if quick else ("U1", "U2", "U3", "U4", "U5")
    per_uni = (1500 if pid == "C08" else 1100) if quick else 12000
    n_model = 0
    for name in unis:
        res = cp.run_universe(d, name, timeout=3000)
        core.require_clean(res, "MC_Compact " + name, allow_violation=True)
        v.add_tlc("MC_Compact_" + name, res, cp.UNIVERSES[name])
        if res.violated:
            v.drift.append({"what": "MC_Compact invariant violated in the model", "universe": name, "invariants": res.violated})
        want = ("ran", "wide") if pid == "C08" else ("ran",)
        sts = cp.states_of(d, name, want)
        if pid == "C08":
            # non-antichain (widened) inputs first, they are what C08 adds over C09
            sts.sort(key=lambda s: s["phase"] != "wide")
        step = max(1, len(sts) // per_uni)
        for st in sts[::step]:
            ids = [x << 42 for x in st["input"]]
            model = cp.model_passes(st)
            events.append(cp.compact_event(cp.permuted(ids, rng), model))
            n_model += 1
            if pid == "C09" and len(ids) > 1:
                events.append(cp.compact_event(cp.permuted(ids, rng), model))     # a second order / duplication
    # the client-session model, exhaustively for short sessions: the covered region under every operation
    scfg = open(d + "/MC_Session_small.cfg").read()
    if not quick:
        scfg = scfg.replace("MaxSteps = 4", "MaxSteps = 5")
    open(d + "/MC_Session_small.cfg", "w").write(scfg)
    sres = core.run_tlc(d, "A5Session", cfg="MC_Session_small.cfg", timeout=3000)
    core.require_clean(sres, "MC_Session_small", allow_violation=True)
    v.add_tlc("MC_Session_small", sres, {"MaxLen": 14, "MaxR": 3, "MaxSteps": 4 if quick else 5,
                                         "properties": "CoverLemma, CanonIdempotent, CompactKeepsCover, SameCoverOps, CoarsenGrows, DropShrinks"})
    if sres.violated or "violated" in sres.out:
        v.drift.append({"what": "A5Session design-level property violated in the model", "detail": sres.violated or "temporal property"})
    if not quick:
        # design level only: ALL antichains of a complete scaled-down hierarchy (2 faces x 2 segments x 4, resolutions
        # 0..2, every aperture change; 84,101 antichains + their widened variants) - the code has 12 / 5 built in, so
        # these inputs cannot be replayed, but the transcribed algorithm is the same text with NF / NS as parameters
        dm = core.workdir(pid + "_mini")
        mini = dict(params.collect())
        mini.update(NF=2, NS=2, FirstQuintant=[0, 0], WindStep=[1, 1], Orientation=[["uv", "vu"], ["uv", "vu"]])
        core.stage_specs(dm, {"A5Params.tla": params.module_text(mini)})
        open(dm + "/MC_Compact_run.tla", "w").write("---- MODULE MC_Compact_run ----\nEXTENDS MC_Compact\nRefinableDef == {<<0,0>>, <<0,1>>, <<1,0>>, <<1,1>>}\nDeepDef == {}\n====\n")
        open(dm + "/MC_mini.cfg", "w").write("SPECIFICATION Spec\nCONSTANTS SortMode = \"hier\"\n SegFaces = {0, 1}\n Refinable <- RefinableDef\n Deep <- DeepDef\n BlockFaces = {}\n"
                                             + "".join("INVARIANT %s\n" % i for i in cp.INVS if i != "AlgSorted") + "CHECK_DEADLOCK FALSE\n")
        mres = core.run_tlc(dm, "MC_Compact_run", cfg="MC_mini.cfg", timeout=3000)
        core.require_clean(mres, "MC_Compact mini", allow_violation=True)
        v.add_tlc("MC_Compact_mini(all antichains of the 2x2x4 hierarchy)", mres, {"NF": 2, "NS": 2, "resolutions": "0..2", "exhaustive": True})
        if mres.violated:
            v.drift.append({"what": "MC_Compact invariant violated on the scaled-down hierarchy", "invariants": mres.violated})
    # negative control of the model: plain numeric order must fail AlgIsCanon in TLC (defect fixed by be0dab5)
    neg = cp.run_universe(d, "U1", mode="numeric", timeout=600, dump=False)
    v.add_tlc("MC_Compact_U1_numeric(negative control)", neg, {"SortMode": "numeric", "expected": "AlgIsCanon violated", "violated": neg.violated})
    if "AlgIsCanon" not in neg.violated:
        raise core.MachineryError("negative control: numeric sort order did not violate AlgIsCanon in the model")
    # regression inputs of fixed findings
    for k in v.fixed:
        for inp in k["match"].get("inputs", []):
            events.append(cp.compact_event([int(x, 16) for x in inp]))
    faces = ser.cell_to_children(0, 0)
    events.append(cp.compact_event(ser.cell_to_children(faces[0], 1) + faces[1:]))
    # B2: random inputs at resolutions TLC does not enumerate
    n_rand = (180 if quick else 3000)
    for k in range(n_rand):
        size = rng.choice([5, 20, 60, 150] if quick else [5, 20, 60, 150, 600, 2000])
        base = cp.random_antichain(p, rng, size, maxres=rng.choice([3, 6, 12, 29]))
        if pid == "C08":
            # multisets: ancestors of members, descendants of members, duplicates
            extra = []
            for c in rng.sample(base, min(len(base), 4)):
                r = ser.get_resolution(c)
                if r > 0 and rng.random() < 0.6:
                    extra.append(ser.cell_to_parent(c, rng.randrange(-1 if rng.random() < 0.1 else 0, r)))
                if r < 28 and rng.random() < 0.5:
                    extra += rng.sample(ser.cell_to_children(c, r + rng.randrange(1, 3)), 3)
            base = base + extra
        events.append(cp.compact_event(cp.permuted(base, rng)))
    for k in range(110 if quick else 2000):
        groups = cp.deep_descent(p, rng)
        for g in groups:
            others = cp.random_antichain(p, rng, 6, maxres=2) if rng.random() < 0.3 else []
            if pid == "C09":
                # keep it an antichain: drop coarse cells comparable with the group
                gset = set(g)
                others = [o for o in others if not any(_comparable(ser, o, x) for x in gset)]
            events.append(cp.compact_event(cp.permuted(g + others, rng, dup=(pid == "C09"))))
    # cascades through every level: a complete partition with a spine down to a deep level (canonical form: the world
    # cell), the same with one hole (canonical form: the siblings along the spine), and with one face missing
    for depth in ((29, 28, 17, 3) if quick else (29, 28, 27, 26, 25, 20, 17, 12, 9, 5, 3, 2, 1)):
        sp = cp.spine_antichain(p, rng, depth)
        events.append(cp.compact_event(cp.permuted(sp, rng, dup=(pid == "C09"))))
        hole = list(sp)
        hole.pop(rng.randrange(len(hole)))
        events.append(cp.compact_event(cp.permuted(hole, rng, dup=(pid == "C09"))))
        events.append(cp.compact_event(cp.permuted(sp[:-1], rng, dup=False)))      # the deepest cell missing
    for k in range(60 if quick else 1200):
        for run in cp.stride_runs(p, rng):
            events.append(cp.compact_event(cp.permuted(run, rng, dup=False)))
    # a face together with the complete cover, two or three levels down, of the resolution-1 cell whose top bits equal
    # the face number (the face's id sorts among those descendants in plain numeric order): the cover has to cascade
    for f in range(1, 12):
        seg = (f << 58) | (1 << 56)
        for depth in ((3,) if quick else (3, 4)):
            try:
                cover = ser.cell_to_children(seg, depth)
            except Exception:
                continue
            events.append(cp.compact_event(cp.permuted([faces[f]] + cover, rng, dup=False)))
    # a whole level minus one cell, plus one cell of another resolution inside the hole (as many distinct cells as the level has)
    for lvl in (0, 1, 2):
        level = ser.cell_to_children(0, lvl)
        for _ in range(2 if quick else 6):
            k = rng.randrange(1, len(level) - 1)
            hole = level[k]
            rest = level[:k] + level[k + 1:]
            finer = rng.choice(ser.cell_to_children(hole))
            events.append(cp.compact_event(cp.permuted(rest + [finer], rng, dup=False)))
            if pid == "C08" and lvl >= 1:
                events.append(cp.compact_event(cp.permuted(rest + [ser.cell_to_parent(level[(k + 7) % len(level)])], rng, dup=False)))
    # a whole early face (as its resolution-0 cell or its five segments) together with a complete cover, two or three
    # levels down, of a cell on a LATER face: few cells, the first of them coarse, and merges that must cascade
    for k in range(6 if quick else 30):
        a = rng.randrange(0, 8)
        b = rng.randrange(a + 1, 12)
        top = cells.real_id({"r": rng.choice([1, 2]), "f": b, "s": rng.randrange(p["NS"]), "d": []}) if rng.random() < 0.5 else \
            cells.real_id({"r": 2, "f": b, "s": rng.randrange(p["NS"]), "d": [rng.randrange(4)]})
        cover = ser.cell_to_children(top, ser.get_resolution(top) + rng.choice([2, 3]))
        early = [faces[a]] if k % 2 else ser.cell_to_children(faces[a], 1)
        events.append(cp.compact_event(cp.permuted(early + cover, rng, dup=(pid == "C09"))))
    # subsets of the twelve faces (eleven of them, after the client removed one from a list the API gave it)
    for k in range(10 if quick else 60):
        sub = list(faces)
        for _ in range(rng.choice([1, 1, 2, 5])):
            sub.pop(rng.randrange(len(sub)))
        events.append(cp.compact_event(cp.permuted(sub, rng, dup=False), prelude=True))
    if pid == "C08":
        # the world cell together with faces / segments (overlapping ancestors at the very top of the tree)
        for k in range(12 if quick else 60):
            some = rng.sample(faces, rng.randrange(1, 5)) + ([faces[0]] if k % 2 else [])
            lst = [0] + some + (ser.cell_to_children(faces[k % 12], 1)[:rng.randrange(0, 6)])
            events.append(cp.compact_event(cp.permuted(lst, rng) if k % 3 else lst))
    # traces of the repository's own tests (hooks on): every recorded compact() run is judged as well
    summary, tev = testtraces.record(d, ["tests/core/test_compact.py"] if quick else ["tests"])
    tcomp = testtraces.compact_events(tev)
    v.cov["repo_test_run"] = summary
    v.cov["compact_runs_recorded_from_repo_tests"] = len(tcomp)
    for e in tcomp:
        e.pop("test", None)
    events += tcomp
    bad = cp.judge_events(d, v, events, prefixes)
    if not quick:
        session.run(d, v, quick, ("compact",), pid + ".session", core.seed() + (800 if pid == "C08" else 900))
    v.cov["inputs_from_tlc"] = n_model
    v.cov["random_and_pattern_inputs"] = len(events) - n_model
    v.cov["events_with_hook_passes"] = sum(1 for e in events if e["passes"])
    for e in events[:2] + events[-2:]:
        v.sample({"input": ["%016x" % core.unnibs(x) for x in e["input"]][:12], "n_input": len(e["input"]),
                  "ret": ["%016x" % core.unnibs(x) for x in e["ret"]][:12], "passes": len(e["passes"])})
    v.exhaustive = False
    v.assumptions += ["TLC universes are focus sub-hierarchies of the real tree (ids scaled by 2^-42) with block symmetry on the listed faces; %s replay samples every %s-th state" % (pid, "k"),
                      "ids are read through A5Layout (bound to the code by C05)"]
    return ("TLC (MC_Compact) builds every antichain of %d focus universes by ordered Add (plus Widen: an ancestor added), runs the transcribed algorithm and checks AlgIsCanon/AlgNoDup/AlgNoGroup/AlgCover; sampled states are replayed on the real compact in permuted/duplicated order with hook events compared pass by pass; random refinement antichains/multisets and near-miss sibling runs to resolution 29 are added; Trace_Compact judges CoverF/CanonF clauses" % len(unis))


def _comparable(ser, a, b):
    ra, rb = ser.get_resolution(a), ser.get_resolution(b)
    if ra == rb:
        return a == b
    if ra > rb:
        a, b, ra, rb = b, a, rb, ra
    return ser.cell_to_parent(b, ra) == a


def replay(v, obj, prefixes=("C08",)):
    if "session" in obj:
        return session.replay_file(v, obj, prefixes[0] + ".session")
    ids = [int(x, 16) for x in obj["input"]]
    d = core.workdir(prefixes[0] + "_replay")
    params.stage(d)
    e = cp.compact_event(ids)
    cp.judge_events(d, v, [e], prefixes)
    v.sample(obj)
    return "replay of one input list"
