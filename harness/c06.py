"""C06 - parent/children form a consistent tree over ids."""
import random
from . import core, params, cells, tree, session


def confirm(e):
    """re-judge a flagged event with the real API only (decode through the real deserialize):
    True if a clause of the property fails on the real outputs"""
    ser, org, utils = cells.api()
    try:
        cid = core.unnibs(e["cell"])
        c = cells.abstract(ser.deserialize(cid))
        if e["ev"] == "children":
            b = c["r"] + 1 if e["b"] == tree.OMIT else e["b"]
            if b < c["r"] or b > 30:
                return e["ok"]
            if not e["ok"]:
                return True
            ret = [core.unnibs(x) for x in e["ret"]]
            from a5.core import cell_info
            exp = 1
            for lvl in range(c["r"], b):
                exp *= 12 if lvl == -1 else 5 if lvl == 0 else 4
            if len(ret) != exp or len(set(ret)) != len(ret):
                return True
            for x in ret:
                k = cells.abstract(ser.deserialize(x))
                if k["r"] != b or (c["r"] >= 0 and k["f"] != c["f"]) or (c["r"] >= 1 and k["s"] != c["s"]) or k["d"][:len(c["d"])] != c["d"]:
                    return True
            if any(core.unnibs(x) != cid for x in e["back"]):
                return True
            if c["r"] >= 1 and sorted(ret)[-1] - sorted(ret)[0] != (len(ret) - 1) * (sorted(ret)[1] - sorted(ret)[0] if len(ret) > 1 else 0):
                return True
            return False
        if e["ev"] == "parent":
            a = c["r"] - 1 if e["a"] == tree.OMIT else e["a"]
            if a > c["r"] or a < -1:
                return e["ok"]
            if not e["ok"]:
                return True
            k = cells.abstract(ser.deserialize(core.unnibs(e["ret"])))
            if k["r"] != a or not e["among"]:
                return True
            if a >= 0 and k["f"] != c["f"] or a >= 1 and k["s"] != c["s"] or k["d"] != c["d"][:max(0, a - 1)]:
                return True
            return False
        return True
    except Exception:
        return True


def run(v):
    quick = core.tier() == "quick"
    rng = random.Random(core.seed() + 6)
    d = core.workdir("C06")
    p, states = tree.mc_tree(d, v, quick, want=("children", "parent", "compose"))
    events = tree.replay_states(states, rng)
    tres, bad = core.judge(d, "Trace_Tree", events, timeout=2400)
    v.add_tlc("Trace_Tree", tres, {"events": len(events)})
    v.traces += len(events)
    v.cov["requests_from_tlc"] = len(states)
    v.cov["by_kind"] = {k: sum(1 for e in events if e["ev"] == k) for k in ("children", "parent", "compose")}
    for e in events[:3]:
        v.sample({k: (e[k] if k not in ("ret", "back", "kids", "kidsvia") else "%d ids" % len(e[k])) for k in e})
    for i, clauses in sorted(bad.items()):
        e = events[i]
        if any(c.startswith("wellformed") for c in clauses):
            raise core.MachineryError("malformed event %r" % {k: e[k] for k in ("ev", "cell")})
        det = {"ev": e["ev"], "cell": "%016x" % core.unnibs(e["cell"]), "a": e.get("a"), "b": e.get("b"), "m": e.get("m"),
               "clauses": clauses, "exc": e.get("exc"), "n_ret": len(e.get("ret", []))}
        if e["ev"] == "compose" or confirm(e):
            v.violation(clauses[0], det, {"check": "C06", "event": {k: e[k] for k in ("ev", "cell", "a", "b", "m") if k in e}}, {"clause": clauses[0]})
        else:
            v.drift.append(det)
    session.run(d, v, quick, ("refine", "refineto", "coarsen"), "C06.session", core.seed())
    v.exhaustive = False
    v.assumptions += ["ids are read through the layout of A5Layout; a flagged event is re-judged with the real deserialize before it counts",
                      "requests: every cell to depth %d x (children b in r-2..r+3, omitted, MaxRes+1; parent a in -2..r+2, omitted; compose), pattern cells at deep resolutions" % (3 if quick else 5)]
    return "TLC (MC_Tree) enumerates one request per behaviour over every cell to the depth bound and digit-pattern cells to resolution 29, checks the tree laws of the design, and each request is replayed on cell_to_children/cell_to_parent (shuffled, handed-out lists scribbled on, some requests repeated); Trace_Tree judges the real answers"


def replay(v, obj):
    if "session" in obj:
        return session.replay_file(v, obj, "C06.session")
    e0 = obj["event"]
    cid = core.unnibs(e0["cell"])
    if e0["ev"] == "children":
        e = tree.children_event(cid, e0["b"])
    elif e0["ev"] == "parent":
        e = tree.parent_event(cid, e0["a"])
    else:
        e = tree.compose_event(cid, e0["m"], e0["a"])
    d = core.workdir("C06_replay")
    params.stage(d)
    tres, bad = core.judge(d, "Trace_Tree", [e], timeout=300)
    v.add_tlc("Trace_Tree", tres)
    v.traces += 1
    v.sample(e0)
    for i, clauses in bad.items():
        if e["ev"] == "compose" or confirm(e):
            v.violation(clauses[0], {"clauses": clauses, "event": e0}, obj, {"clause": clauses[0]})
    return "replay of one request"
