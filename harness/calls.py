"""Canonical call descriptors for the public API: build arguments, execute, digest the result
bit for bit.  Used in the warm harness process and in fresh forks of a pristine template."""
import hashlib, json, copy


def F(x):
    return float(x).hex()


def canon(x):
    """value -> canonical text in which floats are written bit-exactly"""
    if isinstance(x, bool):
        return "b" + str(x)
    if isinstance(x, int):
        return "i%x" % x if x >= 0 else "i-%x" % -x
    if isinstance(x, float):
        return "f" + x.hex()
    if isinstance(x, str):
        return "s" + x
    if x is None:
        return "n"
    if isinstance(x, tuple):
        return "(" + ",".join(canon(y) for y in x) + ")"
    if isinstance(x, list):
        return "[" + ",".join(canon(y) for y in x) + "]"
    if isinstance(x, dict):
        return "{" + ",".join(canon(k) + ":" + canon(v) for k, v in sorted(x.items())) + "}"
    return "?" + type(x).__name__


def digest(x):
    return hashlib.sha256(canon(x).encode()).hexdigest()[:32]


def build(desc):
    """descriptor (JSON-able) -> (function name, positional args)"""
    name = desc[0]
    if name == "lonlat_to_cell":
        return name, [(float.fromhex(desc[1]), float.fromhex(desc[2])), desc[3]]
    if name == "lonlat_to_cell_list":          # same call, the point given as a list
        return "lonlat_to_cell", [[float.fromhex(desc[1]), float.fromhex(desc[2])], desc[3]]
    if name in ("cell_to_lonlat", "get_resolution", "u64_to_hex"):
        return name, [int(desc[1], 16)]
    if name == "cell_to_boundary":
        args = [int(desc[1], 16)]
        if desc[2] is not None:
            args.append(dict(desc[2]))
        return name, args
    if name in ("cell_to_parent", "cell_to_children"):
        args = [int(desc[1], 16)]
        if desc[2] is not None:
            args.append(desc[2])
        return name, args
    if name in ("get_num_cells", "cell_area"):
        return name, [desc[1]]
    if name in ("get_num_cells_float", "cell_area_float"):       # the same resolution spelled as an integral float
        return name[:-6], [float(desc[1])]
    if name == "get_res0_cells":
        return name, []
    if name == "compact":
        return name, [[int(x, 16) for x in desc[1]]]
    if name == "uncompact":
        return name, [[int(x, 16) for x in desc[1]], desc[2]]
    if name == "hex_to_u64":
        return name, [desc[1]]
    raise ValueError(name)


def execute(desc):
    """run one call; returns dict(bits=digest, argsame=bool, preview=str, ret=object or None)"""
    import a5
    name, args = build(desc)
    before = copy.deepcopy(args)
    try:
        ret = getattr(a5, name)(*args)
        out = ("ok", ret)
    except Exception as ex:
        ret = None
        out = ("exc", type(ex).__name__)
    same = canon(args) == canon(before)
    noalias = not any(ret is a for a in args if isinstance(a, (list, dict)))
    return {"bits": digest(out), "argsame": same, "noalias": noalias, "preview": canon(out)[:120], "ret": ret}
