"""Shared by C02 / C12: quantisation of coordinates for the integer geometry of A5Geo."""
import math
from . import core, params, cells

GRID = 4000


def mu(x):
    """degrees -> micro-degrees, rounded away from zero (out of range stays out of range)"""
    v = x * 1e6
    if v != v or v in (float("inf"), float("-inf")):
        return 2 ** 30
    q = math.ceil(v) if v > 0 else math.floor(v)
    return int(max(-2 ** 30, min(2 ** 30, q)))


def grid(points, ref):
    """affine image of lon/lat points around ref on an integer grid (|coord| <= GRID);
    longitudes are first brought within 180 degrees of ref (the +-360 rule)"""
    rel = []
    for lon, lat in points:
        dx = lon - ref[0]
        while dx > 180:
            dx -= 360
        while dx < -180:
            dx += 360
        rel.append((dx, lat - ref[1]))
    # independent scales for the two axes: an axis-aligned affine map with positive factors keeps
    # orientation, crossings and the winding number, and keeps thin polar rings from collapsing
    sx = GRID / max([abs(a) for a, b in rel] + [1e-300])
    sy = GRID / max([abs(b) for a, b in rel] + [1e-300])
    return [[int(round(a * sx)), int(round(b * sy))] for a, b in rel]


def hx(pt):
    return float(pt[0]).hex() + "," + float(pt[1]).hex()


def is_ring(b):
    return isinstance(b, list) and all(isinstance(p, tuple) and len(p) == 2 and all(isinstance(x, float) for x in p) for p in b)


def frame_seeds(rng, n_edge=5):
    """lon/lat points at and around the 62 frame points of the dodecahedron, along its edges, and at
    the poles - the places where the face / quintant / triangle selection switches"""
    params.import_a5()
    from a5.projections.dodecahedron import crs
    from a5.core.coordinate_transforms import to_spherical, to_lonlat
    pts = []
    vs = crs.vertices

    def ll(v):
        n = math.sqrt(sum(x * x for x in v))
        return to_lonlat(to_spherical(tuple(x / n for x in v)))
    for v in vs:
        pts.append(ll(v))
    # points along edges: between every pair of frame points closer than ~0.4 rad
    for i in range(len(vs)):
        for j in range(i + 1, len(vs)):
            d = math.dist(vs[i], vs[j])
            if d < 0.40:
                for t in (0.13, 0.5, 0.77)[:n_edge]:
                    pts.append(ll(tuple(a + t * (b - a) for a, b in zip(vs[i], vs[j]))))
    out = []
    for lon, lat in pts:
        out.append((lon, lat))
        for eps in (1e-9, 1e-6, 1e-4, 3e-3):
            ang = rng.uniform(0, 2 * math.pi)
            out.append((lon + eps * math.cos(ang) / max(0.05, math.cos(math.radians(lat))), max(-90.0, min(90.0, lat + eps * math.sin(ang)))))
    for lat in (90.0, -90.0):
        for lon in (0.0, 93.0, -87.0, 180.0, -180.0, 21.0, -159.0, 87.0, 86.9, 87.1, -93.0):
            out.append((lon, lat))
            for eps in (1e-9, 1e-7, 1e-5, 1e-3, 0.05):
                out.append((lon, lat - eps if lat > 0 else lat + eps))
    # the antimeridian, and the meridian 87 E where the library's own longitudes wrap (theta = 180 degrees - 93)
    for lat in (-89.995, -89.9, -80, -45, -10, 0, 33, 60, 85, 89.9, 89.993, 89.9995):
        for lon in (180.0, -180.0, 179.9999999, -179.9999999, 179.5, -179.5, 87.0, 86.9999999, 87.0000001, 86.5, 87.5):
            out.append((lon, float(lat)))
    # landmark meridians of the longitude arithmetic: 0, +-90, -93 (the offset) - cells hugging them at the finest levels
    for lat in (-77.7, -41.3, -12.9, 0.0, 7.1, 23.4, 38.6, 51.2, 66.6, 81.9):
        for lon in (0.0, 90.0, -90.0, -93.0):
            for eps in (0.0, 2e-8, -2e-8, 6e-8, -6e-8, 4e-7):
                out.append((lon + eps, lat + eps * 3))
    return out
