"""C16 - results do not depend on what other threads are doing."""
import json, random, concurrent.futures as cf
from . import core, params, cells, calls, fresh


def hx(x):
    return float(x).hex()


def shapes(p, rng, quick):
    """call shapes: the three geometric functions on the SAME places (so that different calls share
    cache entries): mid-latitude, on a mirror meridian / face edge, across the antimeridian, next to
    a pole; several resolutions; plus the list functions"""
    ser, org, utils = cells.api()
    import a5
    S = []
    places = [((12.3, 45.6), 9, None), ((-57.0, 20.0), 2, {"segments": 3}), ((179.99, -16.5), 20, {"closed_ring": False}),
              ((10.0, 89.9999), 29, {"segments": 2}), ((-120.0, -89.99), 5, {"segments": 2}), ((-93.0, 31.7), 1, {"segments": 4}),
              ((30.0, 10.0), 0, {"segments": 1})]
    if quick:
        places = [places[0], places[2], places[3], places[6]]      # two of them more than 180 degrees of longitude apart
    for (lon, lat), r, o in places:
        c = a5.lonlat_to_cell((lon, lat), r)
        S.append(["lonlat_to_cell", hx(lon), hx(lat), r])
        S.append(["cell_to_lonlat", "%016x" % c])
        S.append(["cell_to_boundary", "%016x" % c, o])
    if quick:
        c1 = a5.lonlat_to_cell((-93.0, 31.7), 1)                        # a resolution-1 cell (the triangle-shaped level)
        S.append(["cell_to_lonlat", "%016x" % c1])
        S.append(["cell_to_boundary", "%016x" % c1, {"segments": 2}])
    c = a5.lonlat_to_cell((5.0, 5.0), 7)
    S.append(["uncompact", ["%016x" % c, "%016x" % ser.cell_to_parent(c)], 8])
    S.append(["cell_to_children", "%016x" % c, 9])
    S.append(["u64_to_hex", "1a2b3c4d00000001"])
    S.append(["u64_to_hex", "%016x" % c])
    # regression pair of the fixed finding (module-level scratch vectors): lonlat_to_cell((12.3, 45.6), 9) is place 0
    S.append(["cell_to_boundary", "2a2a000000000000", None])
    kids = ser.cell_to_children(c)
    S.append(["compact", ["%016x" % x for x in kids]])
    S.append(["compact", ["%016x" % x for x in ser.cell_to_children(kids[1])] + ["%016x" % kids[2]]])
    S.append(["cell_to_parent", "%016x" % c, 3])
    if not quick:
        S.append(["get_res0_cells"])
        S.append(["cell_area", 7])
        S.append(["hex_to_u64", "%016x" % c])
    return S


def _worker(jobs):
    fr = fresh.Fresh()
    try:
        return fr.run(jobs)
    finally:
        fr.close()


def parallel(jobs, nproc=12):
    """distribute requests over several template processes (each forks per request)"""
    if not jobs:
        return []
    chunks = [jobs[i::nproc] for i in range(nproc)]
    out = [None] * len(jobs)
    with cf.ThreadPoolExecutor(max_workers=nproc) as ex:
        futs = {ex.submit(_worker, ch): k for k, ch in enumerate(chunks) if ch}
        for fu in cf.as_completed(futs):
            k = futs[fu]
            for j, r in enumerate(fu.result()):
                out[k + j * nproc] = r
    # a child that died (out of memory, interrupted pipe) is retried once on its own
    for n, r in enumerate(out):
        if isinstance(r, dict) and str(r.get("bits", "")).startswith("forkfail"):
            rr = _worker([jobs[n]])[0]
            if isinstance(rr, dict) and str(rr.get("bits", "")).startswith("forkfail"):
                raise core.MachineryError("forked child failed twice: %r" % (rr,))
            out[n] = rr
    return out


def run(v):
    quick = core.tier() == "quick"
    rng = random.Random(core.seed() + 16)
    d = core.workdir("C16")
    p = params.stage(d)
    S = shapes(p, rng, quick)
    names = [calls.canon(s)[:70] for s in S]
    # sequential references (cold, and warmed by each possible B)
    import time as _tm
    _clock = [_tm.time()]
    stage = {}

    def lap(name):
        stage[name] = round(_tm.time() - _clock[0], 1)
        _clock[0] = _tm.time()
    seq_cold = parallel([{"fn": "seq", "args": [a, None]} for a in S])
    ref = [r["a"] for r in seq_cold]
    # B3: record the shared-access programs of every shape (cold and warm)
    progs, plines, nlines = {}, {}, {}
    rebinding = {}
    recs = parallel([{"fn": "record", "args": [a, w]} for a in S for w in (False, True)])
    k = 0
    for i, a in enumerate(S):
        for w in (False, True):
            r = recs[k]; k += 1
            if r["bits"] != ref[i]:
                v.violation("C16.sequential", {"call": names[i], "what": "result under recording proxies / warm cache differs from the cold sequential result", "warm": w},
                            {"check": "C16", "A": a, "B": a, "mode": "seq"}, {"clause": "C16.sequential"})
            progs[(i, w)] = [e[:3] for e in r["program"]]
            plines[(i, w)] = [e[3] for e in r["program"]]
            nlines[(i, w)] = r["lines"]
            if r.get("rebinds"):
                rebinding.setdefault(i, set()).update(r["rebinds"])
    lap("record")
    pairs = [(i, j, w) for i in range(len(S)) for j in range(len(S)) for w in (False, True) if not (quick and w and i != j and (i + j) % 5)]
    # two programs can only interact through a location one of them writes and the other touches
    wl = {k: {e[1] for e in pr if e[0] != "R"} for k, pr in progs.items()}
    al = {k: {e[1] for e in pr} for k, pr in progs.items()}
    n_all = len(pairs)
    pairs = [(i, j, w) for (i, j, w) in pairs if (wl[(i, w)] & al[(j, w)]) or (wl[(j, w)] & al[(i, w)])]
    v.cov["pairs_with_a_shared_written_location"] = "%d of %d" % (len(pairs), n_all)
    tl_pairs = [{"A": progs[(i, w)], "B": progs[(j, w)]} for (i, j, w) in pairs]
    json.dump({"pairs": tl_pairs, "none": calls.digest(None)[:8]}, open(d + "/progs.json", "w"))
    res = core.run_tlc(d, "A5Threads", cfg="MC_Threads.cfg", env={"PROGS": d + "/progs.json"}, timeout=2400, heap="16g")
    core.require_clean(res, "MC_Threads")
    v.add_tlc("MC_Threads", res, {"pairs": len(pairs), "MaxSwitch": 2, "shapes": len(S)})
    lap("tlc")
    flagged = {}
    byloc = {}
    strong = {}
    for l in res.prints("FOREIGN"):
        val = core.parse_tla(l)
        pr, t, pc, loc, other_pc, torn = val[1], val[2], val[3], val[4], val[5], val[6]
        i, j, w = pairs[pr - 1]
        # the schedule that realises the foreign read with one preemption of A: if A is the reader, B runs
        # just before A's read (k = pc); if B is the reader, A is stopped where it was (k = other_pc)
        (strong if torn else byloc).setdefault(loc.split("[")[0], set()).add((i, j, w, pc if t == "A" else other_pc))
    # windows on one location are alike: replay a bounded sample per location (all of them when few)
    cap = 60 if quick else 1500
    for loc, pts in sorted(byloc.items()):
        pts = sorted(pts)
        if len(pts) > cap:
            pts = rng.sample(pts, cap)
        for (i, j, w, kk) in pts:
            flagged.setdefault((i, j, w), set()).add(kk)
    fills = {}
    for l in res.prints("FILL"):
        val = core.parse_tla(l)
        i, j, w = pairs[val[1] - 1]
        if not w:
            fills.setdefault((i, j), set()).add(plines[(i, w)][val[2] - 1])
    v.cov["cache_fill_windows_flagged_by_model"] = sum(len(x) for x in fills.values())
    # torn updates (half-finished updates visible to the other call) are replayed all (bounded per location)
    cap2 = 400 if quick else 6000
    for loc, pts in sorted(strong.items()):
        pts = sorted(pts)
        if len(pts) > cap2:
            pts = rng.sample(pts, cap2)
        for (i, j, w, kk) in pts:
            flagged.setdefault((i, j, w), set()).add(kk)
    v.cov["scratch_windows_flagged_by_model"] = {loc: len(x) for loc, x in byloc.items()}
    v.cov["torn_update_windows_flagged_by_model"] = {loc: len(x) for loc, x in strong.items()}
    v.cov["shared_locations_seen"] = len({e[1] for pr in progs.values() for e in pr})
    # ---- replay 1: every flagged pair, access-level preemption at every shared access of A
    jobs, meta = [], []
    for (i, j, w), ks in sorted(flagged.items()):
        n = len(progs[(i, w)])
        pts = set()
        for kk in ks:
            pts |= {max(1, kk - 1), kk, min(n, kk + 1)}
        for kk in sorted(pts):
            jobs.append({"fn": "single", "args": [S[i], S[j], kk, w, "access"]})
            meta.append((i, j, w, kk, "access"))
    # ---- replay 1b: cold cache-fill windows: B runs at the lines from just before a fill to WINDOW lines after it
    # (a fill done in several steps is visible half-way only there).  quick: the same call in the other
    # thread and one other call touching the slot, every 3rd line; thorough: every toucher, every line.
    WINDOW, STRIDE = (120, 3) if quick else (400, 1)
    import time as _t
    t0 = _t.time()
    n_before = len(jobs)
    per_A = {}
    for (i, j), ls in sorted(fills.items()):
        per_A.setdefault(i, []).append((j, ls))
    for i, lst in sorted(per_A.items()):
        lst.sort(key=lambda x: (x[0] != i, x[0]))
        chosen = lst[:2] if quick else lst
        for (j, ls) in chosen:
            pts = set()
            for L in ls:
                pts |= set(range(max(1, L - 2), min(nlines[(i, False)], L + WINDOW) + 1, STRIDE))
            for kk in sorted(pts):
                jobs.append({"fn": "single", "args": [S[i], S[j], kk, False, "line"]})
                meta.append((i, j, False, kk, "line"))
    # keep the thorough tier inside its time budget: a uniform sample of the window points when there are too many
    cap_fill = 1500 if quick else 45000
    if len(jobs) - n_before > cap_fill:
        keep = set(rng.sample(range(n_before, len(jobs)), cap_fill))
        jobs = jobs[:n_before] + [jb for k, jb in enumerate(jobs) if k >= n_before and k in keep]
        meta = meta[:n_before] + [mt for k, mt in enumerate(meta) if k >= n_before and k in keep]
        v.cov["cache_fill_window_points_sampled_from"] = len(keep)
    v.cov["cache_fill_window_replays"] = len(jobs) - n_before
    # ---- replay 2: systematic - B runs to completion at EVERY line of A (dense), all ordered pairs, cold and warm
    djobs, dmeta = [], []
    for i in range(len(S)):
        for j in range(len(S)):
            for w in ((False, True) if (not quick or i == j or (i + j) % 7 == 0) else (False,)):
                every = max(1, nlines[(i, False)] * nlines[(j, False)] // 150000000)      # keep one dense run within a few seconds
                djobs.append({"fn": "dense", "args": [S[i], S[j], w, every]})
                dmeta.append((i, j, w))
    dres = parallel(djobs, nproc=16)
    lap("dense")
    lines_total = 0
    suspects = []
    for (i, j, w), r in zip(dmeta, dres):
        lines_total += r["lines"]
        okA = r["a"] == ref[i]
        okB = set(r["b"].keys()) <= {ref[j]}
        if not (okA and okB):
            suspects.append((i, j, w, r))
    # a call that rebinds a module-level name has shared state the proxies cannot follow: treat all its pairs as suspects
    v.cov["calls_rebinding_module_globals"] = {names[i]: sorted(x) for i, x in rebinding.items()}
    for (i, j, w), r in zip(dmeta, dres):
        if (i in rebinding or j in rebinding) and not any(sx[:3] == (i, j, w) for sx in suspects):
            suspects.append((i, j, w, r))
    # ---- replay 3: single preemption points at line granularity: sampled for all pairs, all points for suspects
    budget = 4000 if quick else 60000
    for (i, j, w, r) in suspects:
        if len(jobs) > budget:
            break                      # enough schedules to replay; the rest of the suspects is reported from the dense run
        n = r["lines"]
        pts = range(1, n + 1) if n <= 1500 else sorted(set(rng.sample(range(1, n + 1), 1500)) | ({r["first_split"][0]} if r.get("first_split") else set()))
        for kk in pts:
            jobs.append({"fn": "single", "args": [S[i], S[j], kk, w, "line"]})
            meta.append((i, j, w, kk, "line"))
    nsample = 3 if quick else 60
    for (i, j, w), r in zip(dmeta, dres):
        if r["lines"] > 0:
            for kk in rng.sample(range(1, r["lines"] + 1), min(nsample, r["lines"])):
                jobs.append({"fn": "single", "args": [S[i], S[j], kk, w, "line"]})
                meta.append((i, j, w, kk, "line"))
    sres = parallel(jobs, nproc=16)
    lap("single")
    n_single = len(jobs)
    for (i, j, w, kk, gran), r in zip(meta, sres):
        badA = r["a"] != ref[i]
        badB = r["b"] is not None and r["b"] != ref[j]
        if badA or badB:
            v.violation("C16.preempt." + gran, {"A": names[i], "B": names[j], "warm": w, "k": kk, "granularity": gran,
                                              "A_result": r["apreview"], "B_result": r.get("bpreview"), "A_wrong": badA, "B_wrong": badB},
                        {"check": "C16", "A": S[i], "B": S[j], "mode": "single", "k": kk, "warm": w, "gran": gran},
                        {"clause": "C16.preempt"})
    # a dense suspect that no single point reproduces is still a reproduced schedule (B at every line)
    seen_pairs = {(x["replay"]["A"] and calls.canon(x["replay"]["A"]), calls.canon(x["replay"]["B"])) for x in v.violations}
    for (i, j, w, r) in suspects:
        if (calls.canon(S[i]), calls.canon(S[j])) not in seen_pairs:
            v.violation("C16.preempt.dense", {"A": names[i], "B": names[j], "warm": w, "A_result": r["apreview"], "B_results": r["b"], "first_split": r.get("first_split")},
                        {"check": "C16", "A": S[i], "B": S[j], "mode": "dense", "warm": w}, {"clause": "C16.preempt"})
    # ---- evicting caches: a long sweep over all faces shows whether any shared dict ever drops entries; if one does,
    # the state just before the eviction is rebuilt and a call whose entry is cached is preempted, at every shared
    # access, by the call that evicts
    ser, org, utils = cells.api()
    import a5
    sweep_cells = ser.cell_to_children(0, 2) + ser.cell_to_children(0, 3)[::7]
    rng.shuffle(sweep_cells)
    sweep = []
    for c in sweep_cells:
        ll = a5.cell_to_lonlat(c)
        sweep.append(["lonlat_to_cell", hx(ll[0]), hx(ll[1]), ser.get_resolution(c)])
        sweep.append(["cell_to_lonlat", "%016x" % c])
    sw = parallel([{"fn": "sweep", "args": [sweep]}], nproc=1)[0]
    v.cov["cache_evictions_seen_in_sweep"] = len(sw["evictions"])
    ejobs, emeta = [], []
    for (n, loc) in sw["evictions"][:3]:
        prefix, Bd = sweep[:n], sweep[n]
        for back in (1, 2, 3, 5, 9, n):
            if n - back < 0:
                continue
            Ad = sweep[n - back]
            for kk in range(1, 140):
                ejobs.append({"fn": "single_after", "args": [prefix, Ad, Bd, kk, "access"]})
                emeta.append((prefix, Ad, Bd, kk))
    if ejobs:
        refs = {}
        for (prefix, Ad, Bd, kk) in emeta:
            key = (len(prefix), calls.canon(Ad))
            if key not in refs:
                refs[key] = None
        rjobs = [{"fn": "seq_after", "args": [sweep[:n_], json.loads(json.dumps(Ad_))]} for (n_, Ad_) in {(len(p_), json.dumps(a_)): (len(p_), a_) for (p_, a_, b_, k_) in emeta}.values()]
        rres = parallel(rjobs, nproc=8)
        for jb, rr in zip(rjobs, rres):
            refs[(len(jb["args"][0]), calls.canon(jb["args"][1]))] = rr["a"]
        eres = parallel(ejobs, nproc=14)
        for (prefix, Ad, Bd, kk), r in zip(emeta, eres):
            want = refs[(len(prefix), calls.canon(Ad))]
            if r["a"] != want:
                v.violation("C16.preempt.evict", {"A": calls.canon(Ad)[:80], "B": calls.canon(Bd)[:80], "after_calls": len(prefix), "k": kk,
                                                  "A_result": r["apreview"], "what": "A had checked a shared cache for its entry; B (the call that makes the cache evict) ran at A's k-th shared access"},
                            {"check": "C16", "mode": "evict", "prefix": prefix, "A": Ad, "B": Bd, "k": kk}, {"clause": "C16.preempt"})
        v.traces += len(ejobs)
    lap("evict")
    # ---- real threads, 1 microsecond switch interval
    tres = parallel([{"fn": "threads", "args": [S, 8, (250 if quick else 6000), 1e-6]}], nproc=1)[0]
    if tres["nbad"]:
        v.violation("C16.threads", {"mismatches": tres["nbad"], "examples": tres["bad"][:4]}, {"check": "C16", "mode": "threads", "shapes": S}, {"clause": "C16.threads"})
    v.traces += len(djobs) + n_single + 1
    lap("threads")
    v.cov["stage_seconds"] = stage
    v.cov["call_shapes"] = len(S)
    v.cov["ordered_pairs_x_cache_state"] = len(djobs)
    v.cov["line_preemption_points_covered_densely"] = lines_total
    v.cov["single_preemption_replays"] = n_single
    v.cov["real_thread_calls"] = tres["calls"]
    v.cov["dense_suspects"] = len(suspects)
    v.sample({"A": names[0], "B": names[3], "lines_of_A": dres[3]["lines"], "A_digest": dres[3]["a"]})
    v.sample({"program_of": names[0], "first_accesses": progs[(0, False)][:6]})
    v.exhaustive = False
    v.assumptions += ["preemption is simulated in one thread: B runs to completion at a line event (sys.settrace) or at a shared access (proxy) of A - a schedule a real second thread could produce",
                      "the dense mode (B at every line of A) covers every single line-level preemption point provided the effects of B do not mask each other; single points are replayed for every suspect and sampled otherwise",
                      "shared locations visible to the model: module-level lists/dicts of a5.* and lists/dicts held by module-level instances of a5 classes (element / key granularity)"]
    return "access programs of %d call shapes recorded from the working tree (proxies); TLC (A5Threads) interleaves every ordered pair (cold and warm caches, context bound 2) and flags foreign reads of scratch locations; flagged pairs replayed at every shared access; every ordered pair replayed with B injected at every line of A (dense) and at sampled single lines; 8 real threads with 1 us switch interval" % len(S)


def replay(v, obj):
    fr = fresh.Fresh()
    try:
        ref = fr.run([{"fn": "seq", "args": [obj["A"], None]}, {"fn": "seq", "args": [obj["B"], None]}]) if obj.get("mode") not in ("threads", "evict") else None
        if obj["mode"] == "single":
            r = fr.run([{"fn": "single", "args": [obj["A"], obj["B"], obj["k"], obj["warm"], obj["gran"]]}])[0]
            bad = r["a"] != ref[0]["a"] or (r["b"] is not None and r["b"] != ref[1]["a"])
        elif obj["mode"] == "dense":
            r = fr.run([{"fn": "dense", "args": [obj["A"], obj["B"], obj["warm"]]}])[0]
            bad = r["a"] != ref[0]["a"] or not set(r["b"].keys()) <= {ref[1]["a"]}
        elif obj["mode"] == "evict":
            ref = fr.run([{"fn": "seq_after", "args": [obj["prefix"], obj["A"]]}])
            r = fr.run([{"fn": "single_after", "args": [obj["prefix"], obj["A"], obj["B"], obj["k"], "access"]}])[0]
            bad = r["a"] != ref[0]["a"]
        elif obj["mode"] == "threads":
            r = fr.run([{"fn": "threads", "args": [obj["shapes"], 8, 2000, 1e-6]}])[0]
            bad = r["nbad"] > 0
        else:
            raise core.MachineryError("unknown replay mode")
    finally:
        fr.close()
    v.traces += 1
    v.states = v.transitions = 1
    v.sample({k: obj[k] for k in obj if k != "shapes"})
    if bad:
        v.violation("C16.preempt", {"result": r}, obj, {"clause": "C16.preempt"})
    return "replay of one schedule"
