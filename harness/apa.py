"""Symbolic part of C05 (thorough tier): for every resolution r the affine form
id = A*top + B*S + C of the real serialize() is probed, confirmed on random positions, and Apalache
proves for ALL S in [0, 4^(r-1)) and all top fields at once: range, marker = lowest set bit, S and top
recovered by shifting/masking, and injectivity.  One generated module per resolution (literal powers)."""
import os, random, subprocess, concurrent.futures as cf
from . import core, cells

TEMPLATE = """---- MODULE APA_Layout_%(r)d ----
(* GENERATED: resolution %(r)d; coefficients probed from the real serialize() *)
EXTENDS Integers
VARIABLES
  \\* @type: Int;
  s1,
  \\* @type: Int;
  t1,
  \\* @type: Int;
  s2,
  \\* @type: Int;
  t2
A == %(A)d
B == %(B)d
C == %(C)d
TwoM == %(twoM)d          \\* 2^m, m = position of the resolution marker
TwoM1 == %(twoM1)d        \\* 2^(m+1)
Two58 == %(two58)d        \\* 2^StartBit
NS == %(nS)d              \\* 4^(r-1) positions
NT == %(nT)d              \\* top fields
Init == s1 \\in 0..(NS - 1) /\\ s2 \\in 0..(NS - 1) /\\ t1 \\in 0..(NT - 1) /\\ t2 \\in 0..(NT - 1)
Next == UNCHANGED <<s1, t1, s2, t2>>
Id(t, s) == A * t + B * s + C
Inv == /\\ Id(t1, s1) > 0 /\\ Id(t1, s1) < 18446744073709551616
       /\\ Id(t1, s1) %% TwoM1 = TwoM                                 \\* marker is the lowest set bit
       /\\ (Id(t1, s1) %% Two58) \\div TwoM1 = s1                      \\* position recovered
       /\\ Id(t1, s1) \\div Two58 = t1                                 \\* face/segment field recovered
       /\\ ((t1 # t2 \\/ s1 # s2) => Id(t1, s1) # Id(t2, s2))          \\* distinct cells, distinct ids
====
"""


def probe(r, p, rng, nsample=400):
    ser, org, utils = cells.api()

    def enc(top, S):
        f, sn = divmod(top, p["NS"])
        seg = (sn + p["FirstQuintant"][f]) % p["NS"]
        return ser.serialize(utils.A5Cell(origin=org.origins[f], segment=seg, S=S, resolution=r))
    C = enc(0, 0)
    A = enc(1, 0) - C
    B = enc(0, 1) - C if r >= 2 else 0
    nS = 4 ** (r - 1)
    nT = p["NF"] * p["NS"]
    bad = []
    for _ in range(nsample):
        t, s = rng.randrange(nT), rng.choice([rng.randrange(nS), nS - 1, 0, nS // 2])
        if enc(t, s) != A * t + B * s + C:
            bad.append((t, s))
    return A, B, C, nS, nT, bad


def one(d, r, co, start_bit, wrong=False):
    A, B, C, nS, nT = co
    m = (start_bit - 1) - 2 * (r - 1)
    txt = TEMPLATE % dict(r=r, A=A, B=(B * 2 if wrong else B), C=C, twoM=2 ** m, twoM1=2 ** (m + 1), two58=2 ** start_bit, nS=nS, nT=nT)
    name = "APA_Layout_%d" % r
    sub = os.path.join(d, "apa_%d%s" % (r, "_neg" if wrong else ""))
    os.makedirs(sub, exist_ok=True)
    open(os.path.join(sub, name + ".tla"), "w").write(txt)
    env = dict(os.environ)
    env["JVM_ARGS"] = "-Xmx2g -Djava.io.tmpdir=" + os.path.join(d, "tmp")
    env["JAVA_TOOL_OPTIONS"] = "-Djava.io.tmpdir=" + os.path.join(d, "tmp")      # SANY (inside Apalache) litters the default tmp dir otherwise
    env["TMPDIR"] = os.path.join(d, "tmp")
    p = subprocess.run(["timeout", "300", "apalache-mc", "check", "--init=Init", "--next=Next", "--inv=Inv", "--length=0",
                        "--out-dir=" + os.path.join(sub, "out"), name + ".tla"], cwd=sub, env=env, capture_output=True, text=True)
    out = p.stdout + p.stderr
    if "The outcome is: NoError" in out:
        return r, "proved"
    if "The outcome is: Error" in out or "Found a violation" in out or "violation" in out.lower():
        return r, "refuted"
    return r, "unknown:" + out[-200:]


def run(d, v, p, rng):
    rs = list(range(2, p["MaxRes"]))
    jobs = {}
    res = {}
    drift = []
    for r in rs:
        A, B, C, nS, nT, bad = probe(r, p, rng)
        if bad:
            drift.append({"resolution": r, "not_affine_at": bad[:3]})
        jobs[r] = (A, B, C, nS, nT)
    with cf.ThreadPoolExecutor(max_workers=6) as ex:
        futs = [ex.submit(one, d, r, jobs[r], p["StartBit"]) for r in rs]
        futs.append(ex.submit(one, d, 7, jobs[7], p["StartBit"], True))        # control: a doubled S stride must be refuted
        outs = [f.result() for f in futs]
    ctrl = outs.pop()
    for r, verdict in outs:
        res[r] = verdict
    v.cov["apalache_symbolic_layout"] = {"resolutions": len(rs), "proved": sum(1 for x in res.values() if x == "proved"),
                                         "not_proved": {str(r): x for r, x in res.items() if x != "proved"},
                                         "negative_control(doubled S stride at r=7)": ctrl[1],
                                         "obligations_per_resolution": "range, marker lowest set bit, S recovered, top recovered, injective; all S in [0,4^(r-1)) x all top fields at once"}
    if ctrl[1] != "refuted":
        v.drift.append({"what": "Apalache negative control was not refuted", "got": ctrl[1]})
    for dct in drift:
        v.drift.append(dict(dct, what="serialize is not the affine form probed from it"))
    return res
